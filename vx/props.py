"""Property registry: which contract files (units) decide which property, and the stated remainder."""

PROPS = {
    'C13': dict(
        title='Optimised hashing and the transcript sponge equal their specification',
        design_ref='DESIGN.md section 4 / C13',
        bounded=[('plonky2', ['c13_', 'c04_challenger'])],
        vspecs=['contracts/C13/poseidon_mds.vspec', 'contracts/C13/poseidon_partial.vspec', 'contracts/C13/poseidon_sbox.vspec', 'contracts/C13/hashing.vspec', 'contracts/C04/challenger.vspec'],
        level_text='Unbounded deductive proof (Verus/Z3) that (i) the frequency-domain MDS multiplication (fft4/ifft4, block1-3, mds_multiply_freq) computes the '
                   'exact integer circulant product and the Goldilocks mds_layer returns, for ALL 2^64 representations of every state element, the published '
                   'circ+diag MDS row product mod P with no i64/u128 overflow anywhere; (i-b) the fast partial-round linear layer mds_partial_layer_fast is, for every round '
                   'and ALL representations, the exact sparse product (element 0: M00*s0 + sum w_hat[i-1]*s_i; element i: s_i + s0*v[i-1]) mod P: the 160-bit accumulator '
                   '(add_u160_u128, reduce_u160) never loses a carry and every FAST_PARTIAL_ROUND_VS entry is canonical; (i-c) sbox_monomial / sbox_layer return x^7 mod P and constant_layer adds round constant k of the named round, for ALL representations, and all 360 round constants are canonical (the unchecked precondition of add_canonical_u64); (ii) hash_n_to_m_no_pad / hash_n_to_hash_no_pad / compress are exactly '
                   'the overwrite-mode sponge over an uninterpreted permutation (chunk boundaries at multiples of RATE, overwrite not add, squeeze from the rate '
                   'part); (iii) every Challenger method implements the duplex sponge state machine and absorbing a ++ b in one or two calls reaches the same state.',
        level_note='Trusted: Verus+Z3; the permutation is uninterpreted in (ii)/(iii); gl_core contracts (C14) for from_noncanonical_u96 and +. NOT proved: the '
                   'identity between the fast partial rounds (FAST_PARTIAL_* matrices) and the textbook rounds (a computer-algebra identity on 12x12 matrices, '
                   'assumption A-C13-1), the full/partial round drivers and mds_partial_layer_init (poseidon.rs) -- listed as remainder. Keccak delegates to an external crate; the bounded harness checks that the Keccak permutation, hash and challenger see field elements, not '
                   'their u64 representations (x vs x + p), that the permutation equals its definition (64-bit words of the hash onion, words >= p skipped) on 42 states incl. one whose digest has a word >= p, and that hash_pad is hash_no_pad of the pad10*1 padding for every length 0..40 and keeps m, m||1, m||0, m||1||0 apart.',
        remainder=['poseidon.rs: mds_partial_layer_init, partial_first_constant_layer, partial_rounds, full_rounds, poseidon drivers (bounded harness only: poseidon == poseidon_naive; linear layers vs a u128 oracle on magnitude classes and states steered to the carry boundaries of the 160-bit accumulator, incl. sums K*2^128 + delta with delta < 100)',
                   'A-C13-1: FAST_PARTIAL_* constants are the sparse factorisation of the MDS matrix', 'Keccak (external crate)', 'AVX2/NEON Poseidon (not compiled here)'],
    ),
    'C14': dict(
        title='Field arithmetic is exact modular arithmetic on every representation',
        design_ref='DESIGN.md section 4 / C14',
        bounded=[('field', ['c14_']), ('field@avx2', ['c14_']), ('field@avx512', ['c14_'])],
        bounded_thorough=[('field', ['t14_'])],
        vspecs=['contracts/C14/gl_core.vspec', 'contracts/C14/gl_ext.vspec', 'contracts/C14/gl_inverse.vspec'],
        level_text='Unbounded deductive proof (Verus/Z3) that each base-field kernel extracted from field/src/goldilocks_field.rs returns the '
                   'mathematically correct residue for every 64/96/128/160-bit representation, with every unchecked `assume`, overflow, '
                   'underflow and debug assertion turned into a discharged obligation; the extension-field product kernels (ext2/4/5) equal the schoolbook product modulo the '
                   'binomial; squaring, exp_power_of_2, exp_u64 (square-and-multiply == x^e mod P for every 64-bit e) and try_inverse: None exactly for the representations of zero, otherwise exactly x^(P-2) mod P through the fixed '
                   '72-multiplication chain (that this is the inverse is Fermat, assumed). Proof is the right level: the failing operand '
                   'patterns have probability ~2^-32 under sampling.',
        level_note='Trusted: Verus+Z3; the 2-instruction x86 asm model (portable twin verified without it); std overflowing_add/sub specs; '
                   'rustc compiling normalised and source text alike. AVX2/AVX-512 packed fields (intrinsics; outside both verifiers): bounded harness only, run as build variants field@avx2 / field@avx512 of the same harness (c14_packed_ops: every operator '
                   'and interleave, every pair of boundary representations in every lane, vs a u128 oracle); add/sub_canonical_u64, add_one, sub_one on the lattice; thorough tier: sums of 2^32 + 2 terms (t14_long_sum); skipped with a note on a CPU without the features. Not covered: secp256k1, sqrt.',
        remainder=[
            'AVX2/AVX-512 packed fields (field/src/arch/x86_64/*): intrinsics outside both verifiers; bounded harness only (build variants field@avx2, field@avx512)',
            'secp256k1 BigUint fields; sqrt / kth_root (BigUint)', 'exp_biguint, batch_multiplicative_inverse, Frobenius / extension inversion (bounded harness only)',
        ],
    ),
    'C07': dict(
        title='Every value a gate computes is pinned by that gate\'s constraints',
        design_ref='DESIGN.md section 4 / C07',
        bounded=[('plonky2', ['c07_'])],
        bounded_thorough=[('plonky2@avx2', ['c07_'])],
        vspecs=['contracts/C07/arithmetic_base.vspec', 'contracts/C07/constant.vspec', 'contracts/C07/exponentiation.vspec', 'contracts/C07/filtered_circuit.vspec', 'contracts/C07/gate_constraints_circuit.vspec', 'contracts/C02/gate_constraints.vspec'],
        level_text='Unbounded deductive proof (Verus/Z3), for ArithmeticGate, ConstantGate and ExponentiationGate in every parameterisation (symbolic num_ops / num_consts / num_power_bits) over an '
                   'abstract commutative ring, that the extension-field, packed/base and in-circuit evaluators all return ONE ring-generic specification '
                   'expression per constraint, exactly num_constraints() of them, with all wire indexing in bounds; plus the pinning lemma (constraint zero '
                   '<==> output wire equals the computed value; for ExponentiationGate the n+1-th constraint output - mid[n-1] and the square-and-multiply chain, most significant bit first). The other gates, the filtered in-circuit evaluator and the generators are covered by a bounded stand-in '
                   'only (labelled bounded); Gate::eval_filtered and Gate::eval_filtered_circuit (filter plumbing: selector column, `num_selectors > 1`, removal of both constant prefixes, '
                   'accumulation filter*c + acc) are proved against ONE uninterpreted filter function (units gate_constraints, filtered_circuit), and both whole-circuit combiners, evaluate_gate_constraints and '
                   'evaluate_gate_constraints_circuit, return in slot j the sum over EVERY gate type of its filtered j-th constraint, each gate with its own selector column, group and the same prefix sizes '
                   '(num_selectors, num_lookup_selectors) (units gate_constraints, gate_constraints_circuit); lemma_circuit_sum_equals_native: if every gate\'s in-circuit evaluator denotes its native evaluator, the two whole-circuit combiners denote the same value in every slot.',
        level_note='Trusted: Verus+Z3; abstract ring for scalar/extension/packed fields (T6); CircuitBuilder arithmetic contracts (T10d). Other gates '
                   '(BaseSum, Exponentiation, RandomAccess, Reducing*, MulExtension, ArithmeticExtension, Poseidon*, CosetInterpolation, Lookup*) and '
                   'compute_filter / compute_filter_circuit (iterator products): bounded harness only (c07_gates: 23 gate instances incl. odd bases 3/5/7 x {standard, 37-routed-wire} configuration: extension vs '
                   'base-batch vs in-circuit evaluators incl. filtered with 1 and 2 selectors, declared constraint count, and for every wire a generator writes: the '
                   'generated row satisfies the gate (also when the inputs are held in non-canonical representation, and for ExponentiationGate with the 66 exponent bits of the standard configuration all set under a random base) and the wire cannot be changed by +1, -1, 12345 without violating a constraint; c07_gate_ids_and_circuit_evaluation: gate ids distinguish every parameterisation, and whole circuits with lookup tables evaluate identically natively and in-circuit; declared vs returned constraint counts and base-batch vs extension evaluators of 12 gate instances in extension degrees 4 and 5; thorough tier: the same battery in an AVX2 build, where the base-batch evaluators run 4 lanes wide).',
        remainder=['all gates other than ArithmeticGate, ConstantGate and ExponentiationGate (bounded harness only)', 'generators run_once (closures over the witness)', 'compute_filter / compute_filter_circuit (assumed to denote the same function)'],
    ),
    'C09': dict(
        title='STARK proofs are accepted exactly for traces that satisfy the constraints',
        design_ref='DESIGN.md section 4 / C09',
        bounded=[('starky', ['c09_', 'c04_', 'c18_'])],
        vspecs=['contracts/C09/constraint_consumer.vspec', 'contracts/C09/stark_degree.vspec', 'contracts/C09/lagrange_ends.vspec', 'contracts/C09/stark_fri_instance.vspec', 'contracts/C18/stark_shape.vspec', 'contracts/C05/fri_verifier.vspec'],
        level_text='Unbounded deductive proof (Verus/Z3) that ConstraintConsumer accumulates acc_i*alpha_i + c*filter with filter = 1, z_last, L_first, L_last for '
                   'constraint / constraint_transition / constraint_first_row / constraint_last_row respectively (a swapped or missing filter fails the '
                   'postcondition); Stark::quotient_degree_factor is 0 for degree 0, 1 for degrees 1 and 2 and degree-1 above (a STARK with constraints always gets '
                   'a quotient wide enough for its declared degree) and num_quotient_polys is that times num_challenges; eval_l_0_and_l_last returns '
                   '(x^n - 1)/(n(x - 1)) and (x^n - 1)/(n(gx - 1)), the filters of the first-row and last-row constraints; validate_proof_shape returns Ok only for proofs whose '
                   'quotient commitment AND quotient openings are present exactly when the STARK has quotient polynomials, in the declared number (the conditions whose absence were F8/F9), with '
                   'trace/next openings of COLUMNS values and PUBLIC_INPUTS public inputs; Stark::fri_instance lists one oracle per commitment in the order the verifier lists the caps (trace, auxiliary iff lookups / CTLs, quotient iff there are quotient polynomials) and opens EVERY committed polynomial at zeta, the trace and auxiliary ones also at g*zeta, and the cross-table-lookup Z polynomials at 1; verify_stark_proof returns Ok only if the shape was validated and verify_stark_proof_with_challenges accepted under the challenges of a FRESH transcript derived with ignore_trace_cap = false and nothing supplied from outside, the public inputs absorbed first and every commitment of the proof handed to the transcript function in its own slot (that function and the checks themselves are uninterpreted in that contract). The rest of the STARK verifier and the prover '
                   '(iterator pipelines) are covered by a bounded stand-in only.',
        level_note='Trusted: Verus+Z3; abstract ring for packed fields; lane-wise scalar multiplication uninterpreted. verify_stark_proof_with_challenges, '
                   'compute_quotient_polys, eval_vanishing_poly, the transcript function get_challenges (the free function; its two method wrappers are under contract): bounded harness only (flat_map/chunks/Option plumbing outside the Verus subset): '
                   'a Fibonacci STARK and a family of counter STARKs (2..40 columns, 8..128 rows; declared degree 1..3 at blowup 2, 2..5 at blowup 4, 3..9 at blowup 8, i.e. quotients '
                   'split into 1..8 chunks incl. the non-powers of two): honest traces proved and accepted; corrupted first / '
                   'interior / last rows, false public inputs (also pairs of errors that would cancel under a shared weight) and altered proof elements never accepted; '
                   'a harness-side cheating prover that ignores the constraints (quotients fitted to a guessed zeta with the commitment withheld / not absorbed / absorbed '
                   'after the guess; all-zero quotients with their openings withheld) is never accepted (found F9); the STARK transcript battery (c04_stark_transcript, which also requires the stand-alone proof to verify under the transcript that absorbs the trace cap and not under the one without it) and the malformed-proof battery (c18_stark_malformed) are part of this check.',
        remainder=['starky verify_stark_proof_with_challenges, the transcript function get_challenges, prover, vanishing polynomial (bounded harness only)', 'batch_multiplicative_inverse (assumed contract)', 'STARK soundness argument'],
    ),
    'C15': dict(
        title='Transforms and polynomial algebra agree with their definitions',
        design_ref='DESIGN.md section 4 / C15',
        bounded=[('field', ['c15_']), ('util', ['c15_']), ('field@avx2', ['c15_']), ('field@avx512', ['c15_'])],
        vspecs=['contracts/C15/util_log2.vspec', 'contracts/C15/util_logs.vspec', 'contracts/C15/poly_len.vspec'],
        level_text='Unbounded deductive proof (Verus/Z3) of log2_strict (result r with n == 2^r for every power of two; its internal assertion and its unchecked '
                   '`assume` are discharged), of bits_u64 (2^(r-1) <= n < 2^r), log2_ceil (the least r with n <= 2^r) and log_floor (the largest r with base^r <= n, for every n > 0 and base > 1), and of PolynomialCoeffs::pad / trim_to_len (padding never drops a coefficient; trimming succeeds exactly when only zero '
                   'coefficients are cut off). FFT == direct evaluation, inverse/coset variants, zero-tail and root-table options, multiplication, division, '
                   'interpolation, bit reversal and transposes are covered by a bounded stand-in only (roots-of-unity developments are days of proof '
                   'engineering; see DESIGN.md).',
        level_note='Trusted: Verus+Z3; usize::trailing_zeros / leading_zeros std semantics. Everything except the log helpers and pad / trim_to_len is BOUNDED evidence (sizes 1..256, random and boundary '
                   'operands, naive DFT / schoolbook oracles; fft and ifft with every zero-tail factor and with root tables; scalar, AVX2 and AVX-512 builds of the same harness (packed butterflies); coset vanishing polynomial, first Lagrange polynomial, disjoint coset shifts, value-form LDE helpers), never '
                   'counted as proof; it found F6 (div_rem) and F7 (inv_mod_xn), both fixed.',
        remainder=['fft / ifft / coset variants / lde', 'polynomial mul / div_rem / divide_by_linear / interpolate', 'reverse_index_bits*, transpose_* (unsafe code)'],
    ),
    'C12': dict(
        title='Merkle commitments open only to the committed leaf at the committed position',
        design_ref='DESIGN.md section 4 / C12',
        bounded=[('plonky2', ['c12_', 'c16_compression']), ('plonky2@threads1', ['c12_']), ('plonky2@threads3', ['c12_']), ('plonky2@threads5', ['c12_'])],
        vspecs=['contracts/C12/merkle_verify.vspec', 'contracts/C12/merkle_types.vspec', 'contracts/C12/merkle_prove.vspec', 'contracts/C13/hashing.vspec'],
        level_text='Unbounded deductive proof (Verus/Z3), over an uninterpreted hasher, that the real verify_batch_merkle_proof_to_cap / '
                   'verify_merkle_proof_to_cap return Ok exactly when the textbook path fold of the leaf digest with the siblings, directed by the '
                   'index bits, equals the cap entry addressed by the remaining index bits; all indexing and the height countdown are proved panic-free '
                   'under the stated shape preconditions. merkle_tree_prove (opening side): for every leaf position of every tree of up to 2^40 leaves and every cap '
                   'height, all indices into the interleaved digest buffer are in range, one sibling per layer is returned, and sibling i is the OTHER element of the '
                   'pair above the leaf in layer i, taken from the sub-tree of the cap entry of that leaf.',
        level_note='Trusted: Verus+Z3; hasher functions uninterpreted (binding itself is the collision-resistance argument, outside the family); '
                   'Vec/slice std specs. MerkleTree::new / fill_subtree / fill_digests_buf (MaybeUninit + rayon), batch trees and path compression: bounded harness only: every leaf count 1..32, widths 1..9, cap heights, '
                   'four leaf styles, both hashers, every position / sibling / cap entry altered, every leaf element altered in every byte position, cap == level-by-level hashing; the same tests are run under rayon pools of 1, 3 and 5 threads '
                   '(build variants plonky2@threads<n>: the same binary with RAYON_NUM_THREADS set) besides the default pool; c16_compression (all index multisets of small trees) is part of this check.',
        remainder=['MerkleTree::new, fill_subtree, fill_digests_buf (MaybeUninit, split_at_mut, rayon join): outside the Verus subset',
                   'thread-schedule clause of the property: no thread model in the verifier',
                   'batch_merkle_tree.rs'],
    ),
    'C04': dict(
        title='Fiat-Shamir challenges depend on the whole statement and prior transcript',
        design_ref='DESIGN.md section 4 / C04',
        bounded=[('plonky2', ['c04_']), ('starky', ['c04_'])],
        vspecs=['contracts/C04/challenger.vspec', 'contracts/C04/transcript.vspec', 'contracts/C18/stark_shape.vspec'],
        level_text='Unbounded deductive proof (Verus/Z3) that (i) every Challenger method implements the overwrite-mode duplex sponge state machine '
                   '(absorbing invalidates buffered outputs; a challenge is drawn only after pending inputs were duplexed), and (ii) get_challenges / '
                   'fri_challenges / FriParams::observe / FriConfig::observe compute exactly the transcript function written in the order of the property: '
                   'FRI+degree parameters, circuit digest, public-input hash, wires cap -> betas, gammas [deltas] -> zs cap -> alphas -> quotient cap -> zeta '
                   '-> openings -> alpha -> per commit-phase cap (cap, then beta) -> final polynomial -> PoW witness -> PoW response -> query indices. '
                   'Every challenge is therefore a named function of every message absorbed before it; dropping or reordering an absorption fails a postcondition. '
                   'STARK side, entry level only: StarkProofWithPublicInputs::get_challenges absorbs the public inputs before the proof\'s own derivation and passes ignore_trace_cap through, and verify_stark_proof '
                   'uses a fresh transcript with ignore_trace_cap = false and no supplied challenges; StarkProof::get_challenges hands the transcript function the trace cap unless ignore_trace_cap, the auxiliary and the quotient cap each in its own slot, the whole opening set, the commit-phase caps, the final polynomial, the PoW witness and the degree RECOVERED from the proof (unit stark_shape); the transcript function itself (the free function get_challenges of starky: iterator / closure code) is uninterpreted there.',
        level_note='Trusted: Verus+Z3; the sponge permutation is uninterpreted (that altering an absorbed element changes later challenges is the '
                   'random-oracle reading of the permutation, outside the family); FriReductionStrategy::serialize, to_fri_openings, Vec::drain/iter::repeat '
                   'adaptors assumed. Not covered: the PROVER transcript in prove_with_partition_witness (rayon/timing macros; agreement with the verifier '
                   'is what the positive tests establish), RecursiveChallenger. STARK get_challenges: bounded harness only (c04_stark_transcript: 25+ message / parameter alterations incl. the optional lookup / cross-table-lookup openings, the auxiliary cap with drawn and with caller-supplied lookup challenges, and 10 reduction strategies, each must change every later challenge group and no earlier one). fri_challenges called directly with padded transcript lengths / step counts (None, 0, shorter, equal, longer): every limb of every final-polynomial coefficient and every commit-phase cap element must reach the challenges drawn after it (c04_transcript_dependence).',
        remainder=['prover-side transcript (plonk/prover.rs, fri/prover.rs)', 'RecursiveChallenger and in-circuit get_challenges', 'starky get_challenges (bounded harness only)'],
    ),
    'C05': dict(
        title='FRI opening proofs attest only true evaluations of low-degree polynomials',
        design_ref='DESIGN.md section 4 / C05',
        bounded=[('plonky2', ['c05_']), ('field', ['c15_polynomial'])],
        vspecs=['contracts/C05/fri_verifier.vspec', 'contracts/C05/batch_fri_verifier.vspec', 'contracts/C18/fri_shape.vspec', 'contracts/C12/merkle_verify.vspec'],
        level_text='Unbounded deductive proof (Verus/Z3) of the verifier check skeleton: verify_fri_proof returns Ok only if the shape is valid, the '
                   'proof-of-work response has the required leading zeros, the number of query rounds equals the configured one, and for EVERY '
                   'query round: every initial-oracle Merkle path, the first-layer consistency, every per-layer fold consistency with the right beta, '
                   'every commit-phase Merkle path at the right coset index and the final-polynomial evaluation were checked (fri_verifier_query_round: '
                   'Ok <==> that conjunction). verify_batch_fri_proof: Ok only if shape, proof-of-work on the transcript response, round count and the per-round '
                   'check of EVERY round held (the batch per-round function itself is bounded-only). The algebra called by the skeleton is abstracted by uninterpreted functions.',
        level_note='Trusted: Verus+Z3; compute_evaluation, fri_combine_initial, PolynomialCoeffs::eval, flatten, reverse_bits, from_os_and_alpha as '
                   'uninterpreted functions; FriParams from common data (params_ok). FRI soundness over these checks is outside the family. '
                   'Prover side not covered; batch_fri_verifier_query_round / batch_fri_verify_initial_proof (scan closures) bounded harness only (7 batch plans incl. two-coefficient polynomials entering at the last layer); '
                   'c05_fri_structured_openings: stand-alone opening proofs over constant / zero / linear / random polynomials under 6 opening plans x 4 parameter sets: true openings accepted, every false opening rejected. c05_batch_skipped_layer: forgers for an instance whose domain the folding schedule never reaches (two and three instances). The field-crate battery c15_polynomial (interpolation incl. zero values, used by compute_evaluation) is part of this check.',
        remainder=['FRI soundness theorem (proximity gaps) over the checked conjunction', 'prover side: fri_committed_trees, fri_proof_of_work, prove_openings',
                   'batch FRI per-round function (batch_fri_verifier_query_round) and batch prover', 'reduction_arity_bits strategies'],
    ),
    'C03': dict(
        title='Accepted proofs are bound to each of their elements and to their circuit',
        design_ref='DESIGN.md section 4 / C03',
        bounded=[('plonky2', ['c03_', 'c04_'])],
        vspecs=['contracts/C03/plonk_verifier.vspec', 'contracts/C03/plonk_fri_instance.vspec', 'contracts/C02/vanishing_poly.vspec', 'contracts/C02/plonk_common.vspec', 'contracts/C05/fri_verifier.vspec', 'contracts/C18/fri_shape.vspec', 'contracts/C12/merkle_verify.vspec',
                'contracts/C04/transcript.vspec', 'contracts/C04/challenger.vspec', 'contracts/C16/compressed_verify.vspec'],
        level_text='Unbounded deductive proof (Verus/Z3) of the acceptance skeleton of the real verifier code: verify() returns Ok only if shape validation '
                   'pinned every vector length to the circuit, the vanishing identity held for EVERY challenge index on the proof\'s own openings, '
                   'challenges were derived from the public-input hash, the VERIFIER DATA\'s circuit digest and the common data, and the FRI opening '
                   'proof was verified (every query round, every Merkle path, every fold, final polynomial, PoW, round count) against the caps '
                   '[verifier_data.constants_sigmas_cap, wires_cap, zs_cap, quotient_cap] in that order. A verifier that stops checking one of these '
                   'fails a named postcondition. The vanishing expression itself (eval_vanishing_poly) is the alpha-combination of the L_0 terms, the partial-product checks, the lookup terms and the '
                   'gate constraints, each for every challenge index on its own slice of the openings (unit vanishing_poly, shared with C02). get_fri_instance and its helpers (unit plonk_fri_instance): four oracles in the order of the caps, '
                   'EVERY polynomial of every commitment opened at zeta, the Z and all lookup polynomials also at g*zeta. reduce_with_powers, by which the verifier rebuilds t(zeta) from the quotient chunks (uninterpreted in unit plonk_verifier), returns sum_i chunk[i] (zeta^n)^i over EVERY chunk element (unit plonk_common, shared with C02).',
        level_note='Trusted: Verus+Z3; algebra callees as uninterpreted functions (T10); get_challenges proved against the transcript specification (C04 units, same run); circuit data '
                   'satisfy common_ok. The step from "every element is read by a check or absorbed" to "every change is rejected" is the '
                   'soundness/collision argument (outside the family). Compressed proofs: only the skeleton of CompressedProofWithPublicInputs::verify is under contract (unit compressed_verify: public-input count, shape validation of the decompressed proof (the repair of F11a), the same verify_with_challenges); the decompress path itself (HashMap code, where the open finding F11 sits) is uninterpreted there and covered by the bounded lane only.',
        remainder=['compressed proofs: CompressedFriProof::decompress, get_inferred_elements (iterator/HashMap code outside the subset)',
                   'the soundness/collision-resistance argument over the checked conjunction'],
    ),
    'C16': dict(
        title='Proof compression is lossless and verification-equivalent',
        design_ref='DESIGN.md section 4 / C16',
        bounded=[('plonky2', ['c16_', 'c17_all'])],
        vspecs=['contracts/C16/path_compression.vspec', 'contracts/C16/compressed_verify.vspec'],
        level_text='Unbounded deductive proof (Verus/Z3) that compress_merkle_proofs keeps every `known[..]` access in bounds for all index multisets and heights '
                   'and returns, per input path, a SUBSEQUENCE of that path\'s siblings (nothing invented or reordered); and that CompressedProofWithPublicInputs::verify returns Ok only if the public-input count equals the circuit\'s, the DECOMPRESSED proof passed validate_proof_shape and verify_with_challenges accepted it under the challenges derived from the compressed form (unit compressed_verify; the decompression functions themselves are uninterpreted there), and that compress / decompress of a proof with public inputs carry the public inputs over unchanged and (de)compress the proof at the proof\'s own query positions / under the challenges of the compressed form. Losslessness of the whole '
                   'compress/decompress pair and verification equivalence (HashMap / iterator-of-iterators code) are covered by a bounded stand-in only.',
        level_note='Trusted: Verus+Z3; hashes opaque. decompress_merkle_proofs, FriProof::compress, CompressedFriProof::decompress, get_inferred_elements: '
                   'bounded harness only (8 arity schedules incl. non-uniform ones, cap heights 0..5, up to 500 queries, all index multisets of small trees).',
        remainder=['decompress_merkle_proofs (HashMap::entry, iterator of iterators)', 'FriProof::compress / CompressedFriProof::decompress / get_inferred_elements', 'verification equivalence'],
    ),
    'C17': dict(
        title='Binary encodings round-trip and restored circuits are interchangeable',
        design_ref='DESIGN.md section 4 / C17',
        bounded=[('plonky2', ['c17_', 'c18_c17_'])],
        bounded_thorough=[('plonky2', ['t17_'])],
        vspecs=['contracts/C17/serialization.vspec'],
        level_text='Unbounded deductive proof (Verus/Z3) for the primitive readers/writers (u8, bool, u16, u32, usize, field) and the vector ones (usize_vec, field_vec, lookup tables as (u16, u16) rows): write_T appends exactly enc_T(x); read_T '
                   'consumes exactly those bytes, fails exactly on short input (read_bool also on bytes > 1), never panics; lemmas read_T(write_T(x) ++ tail) '
                   '== (x, tail), for field vectors of every length. Composite readers/writers, the tag registries and "a restored circuit proves interchangeably" are covered by a bounded '
                   'stand-in only.',
        level_note='Trusted: Verus+Z3; vstd::bytes little-endian specs for from_le_bytes/to_le_bytes; abstract Read/Write. Composite encoders (read_proof, '
                   'read_common_circuit_data, per-gate and per-generator pairs): bounded harness only (4 circuit families incl. 256-entry lookup tables '
                   'and random access; restore, prove with the restored circuit, cross-verify; a Keccak configuration (25-byte digests): proof, compressed proof, verifier-only and verifier circuit data; a circuit carrying a dummy-proof generator over an inner circuit with other common data; a zero-knowledge configuration; the compressed-proof codec on five proofs over small domains, at least one of which is checked to have coinciding FRI query positions).',
        remainder=['composite readers/writers (closures returning Result)', 'gate / generator serializer registries and per-gate pairs', 'restored circuits interchangeable (whole-system)'],
    ),
    'C18': dict(
        title='Verifiers and proof decoders fail cleanly on malformed input',
        design_ref='DESIGN.md section 4 / C18',
        bounded=[('plonky2', ['c03_c18_', 'c18_']), ('starky', ['c18_', 'c09_c18_'])],
        vspecs=['contracts/C18/fri_shape.vspec', 'contracts/C18/stark_shape.vspec', 'contracts/C05/fri_verifier.vspec', 'contracts/C03/plonk_verifier.vspec', 'contracts/C12/merkle_verify.vspec', 'contracts/C15/util_log2.vspec', 'contracts/C16/compressed_verify.vspec'],
        level_text='Unbounded deductive proof (Verus/Z3) that, with NO precondition on the proof value beyond its Rust type, FRI shape validation and the '
                   'FRI verifier reach no failing index, slice, subtraction, shift, unwrap or assertion: every such operation in the extracted '
                   'bodies is a discharged obligation, and shape validation is the only place allowed to establish length facts. The same for the STARK entry: validate_proof_shape / '
                   'check_lookup_options / recover_degree_bits (starky) read the first Merkle path, subtract rate_bits and shift by cap_height only after establishing that this is safe (F3), for every proof value; and verify_stark_proof returns Ok only after that validation, which it runs BEFORE deriving challenges from the proof (the order F3 was about: without the validation call the postcondition fails).',
        level_note='Trusted: Verus+Z3; parameters from the common data satisfy params_ok/instances_ok; unverified callees (T10) assumed panic-free under '
                   'their stated preconditions. Byte decoders, the decompression of compressed proofs (the open finding F5 is a panic there; unit compressed_verify treats those functions as uninterpreted and total, so it does NOT speak about their panics) and the STARK verifier after shape validation are covered by the bounded stand-in only '
                   '(c18_c17_decoders: truncations / bit flips / 0xff runs of encoded proofs and circuit data; c18_compressed_malformed: open finding F5; '
                   'c18_stark_malformed: 42 surgeries (incl. Some(empty vector) for every optional opening) x 3 configurations x trace sizes, and final-polynomial / cap / round surgeries on proofs made for the FRI parameters of a recursive verifier (verifier_circuit_fri_params = Some, degrees 30, 14, 10, 6); c03_c18_surgery_*: every proof component altered, truncated, extended under 3 configurations).',
        remainder=['decompression of compressed proofs: get_inferred_elements, CompressedFriProof::decompress (HashMap keyed by proof data; the panics of F5 sit there; only the skeleton of the compressed verify is under contract)', 'byte decoders (util/serialization)', 'starky verifier after validate_proof_shape (get_challenges, verify_stark_proof_with_challenges: bounded harness only)'],
    ),
    'C02': dict(
        title='No accepted proof exists for an assignment that violates the circuit',
        design_ref='DESIGN.md section 4 / C02',
        bounded=[('plonky2', ['c02_', 'c08_'])],
        vspecs=['contracts/C02/gate_constraints.vspec', 'contracts/C02/vanishing_poly.vspec', 'contracts/C02/partition_witness.vspec', 'contracts/C07/gate_constraints_circuit.vspec', 'contracts/C07/filtered_circuit.vspec', 'contracts/C02/forest.vspec', 'contracts/C02/partial_products.vspec', 'contracts/C02/plonk_common.vspec', 'contracts/C15/poly_len.vspec', 'contracts/C03/plonk_verifier.vspec', 'contracts/C08/lookup_selectors.vspec'],
        level_text='Unbounded deductive proof (Verus/Z3) of three of the mechanisms the property names: (i) evaluate_gate_constraints returns, in every '
                   'slot j, the sum over EVERY gate type of the circuit of that gate\'s j-th filtered constraint, each taken with its own selector column '
                   'and group range (no gate skipped, nothing overwritten), and Gate::eval_filtered multiplies the gate\'s own evaluator (run on the '
                   'constants without the selector and lookup-selector prefixes) by compute_filter(row, group, constants[selector_index], '
                   'num_selectors > 1); (ii) the verifier checks vanishing(zeta) == Z_H(zeta) * t(zeta) for EVERY challenge index '
                   '(verify_with_challenges, shared with C03); (iii) the lookup selectors are placed for every table (shared with C08); (iv) the disjoint-set forest '
                   'behind the copy classes: add creates a singleton class, find returns the representative and changes no class (path compression), merge unites '
                   'EXACTLY the two classes named and no other, compress_paths leaves every parent pointer equal to its representative (what wire_partition '
                   'assumes), all for arbitrary forests with termination proved; Target::index is the row-major grid index; (v) partial_products_and_z_gx '
                   'returns Z(x) times the running chunk products (last entry = Z(gx)) and num_partial_products = ceil(n/max_degree) - 1; trim_to_len (the quotient '
                   'truncation in the prover) fails unless only zero coefficients are cut; (vi) PartitionWitness keeps ONE value per copy class: set_target_returning_rep writes the slot of the class representative, '
                   'refuses a second, different value for the class and changes nothing else (frame over all other classes and the partition), try_get_target reads that slot, so every target of a class reads the same value; '
                   '(vii) the in-circuit combiner evaluate_gate_constraints_circuit mirrors (i) (shared with C07); (viii) eval_vanishing_poly, the expression the verifier compares with Z_H(zeta) t(zeta), is, for EVERY challenge index i, the alpha-combination of L_0(x)(Z_i(x) - 1), '
                   'the partial-product checks over numerators w_j + beta_i k_j x + gamma_i and denominators w_j + beta_i sigma_j(x) + gamma_i with the i-th slice of partial products and Z_i(x), Z_i(gx), the lookup terms on the i-th slices, '
                   'and the gate constraints of (i), in this order, with no group dropped (check_partial_products, the lookup terms, L_0 and the alpha reduction are uninterpreted IN THAT CONTRACT); (ix) the helpers themselves (unit plonk_common): eval_zero_poly is x^n - 1, eval_l_0 is 1 at x = 1 and (x^n - 1)/(n(x - 1)) elsewhere with the division never reached on a zero divisor, reduce_with_powers returns sum_i terms[i] alpha^i over EVERY term (the reconstruction of t(zeta) from the quotient chunks in the verifier) and reduce_with_powers_multi returns that sum for EVERY alpha in its own slot. '
                   'The soundness argument over these mechanisms, the permutation argument and the adversarial-prover half are covered by a bounded '
                   'stand-in only.',
        level_note='Trusted: Verus+Z3; Gate::eval_unfiltered and compute_filter as uninterpreted functions (T10); dyn-Gate dispatch to the default '
                   'eval_filtered (T12); common data well-formed (common_gates_ok). Bounded harness: 3 circuit families (assertions / Poseidon + '
                   'exponentiation / lookups + random access), every row x 13 columns, single-cell and copy-class corruptions of the witness handed to '
                   'prove_with_partition_witness, with an independent native oracle deciding whether the assignment violates the circuit. Degenerate '
                   'prover strategies are exercised through the guarded hooks (cargo feature verif_hooks, MANIFEST.hooks): all-zero permutation polynomials, a quotient '
                   'perturbed for one challenge, lenient quotient truncation, each on copy-constraint-only violations; also a 37-routed-wire configuration and conflicting assignments.',
        remainder=['PLONK soundness (Schwartz-Zippel) over the checked identities', 'permutation argument: wire_partition / get_sigma_map / get_sigma_polys (HashMap code; bounded harness only)',
                   'check_partial_products, check_lookup_constraints (uninterpreted in eval_vanishing_poly; bounded harness only); eval_l_0 and reduce_with_powers_multi are proved in unit plonk_common, but eval_vanishing_poly sees them as uninterpreted functions, so the link between the two contracts is by name, not by an imported contract', 'eval_vanishing_poly_base_batch (prover side) and eval_vanishing_poly_circuit (recursive verifier): bounded harness only', 
                   'adversarial prover strategies beyond the three hooked ones (all-zero Z, per-challenge quotient alteration, lenient truncation): not exercised'],
    ),
    'C08': dict(
        title='Table lookups are provable exactly for pairs contained in the table',
        design_ref='DESIGN.md section 4 / C08',
        bounded=[('plonky2', ['c08_'])],
        vspecs=['contracts/C08/lookup_selectors.vspec', 'contracts/C08/lookup_gates.vspec'],
        level_text='Unbounded deductive proof (Verus/Z3) of the placement layer of the lookup argument: selectors_lookup returns exactly four selector '
                   'columns with TransSre = 1 exactly on [last_lut_k, first_lut_k], TransLdc = 1 exactly on [last_lu_k, last_lut_k), InitSre = 1 exactly '
                   'at first_lut_k + 1 and LastLdc = 1 exactly at last_lu_k, for EVERY table k and no other row, for any number of tables and any '
                   'degree; selector_ends_lookups returns one column per table that is 1 exactly on that table\'s last_lut row; all writes in bounds; '
                   'LookupGate / LookupTableGate slot wires are pairwise disjoint routed wires. The logarithmic-derivative argument itself is covered '
                   'by a bounded stand-in only.',
        level_note='Trusted: Verus+Z3; rows_ok (add_all_lookups places lookup rows, table rows and a zero row: CircuitBuilder code, assumed); '
                   'PolynomialValues::new contract. check_lookup_constraints*, get_lut_poly, compute_lookup_polys, set_lookup_wires, '
                   'add_all_lookups, LookupTableGenerator: closure/HashMap code, bounded harness only (11 table/lookup plans incl. 1..3 tables, sizes 1..53, '
                   'exact multiples of the slot counts, heavy repetition, unused entries; every first/middle/last looked-up pair corrupted on both '
                   'sides incl. pairs of another table; unordered tables; adversaries that rewrite a table row or claim multiplicity in an unused slot; lookup outputs are not public inputs, so '
                   'nothing but the lookup argument catches them; every corrupted pair is also handed to a prover that starts the running sums at a chosen offset (guarded hook offset_lookup_sums): this found F10, a soundness defect of the unchanged tree, fixed in 7861f1b; key layouts: strided, shuffled permutations of 0..len, 0 / len-1 at the ends with arbitrary keys between, identity).',
        remainder=['logUp soundness argument', 'check_lookup_constraints* / get_lut_poly (bounded harness only)', 'set_lookup_wires / compute_lookup_polys (bounded harness only)',
                   'add_all_lookups establishes rows_ok (assumed)', 'multiplicity corruptions other than the unused-slot adversary: not exercised'],
    ),
    'C20': dict(
        title='Conditional and cyclic recursion enforce exactly the selected verification',
        design_ref='DESIGN.md section 4 / C20',
        bounded=[('plonky2', ['c20_', 'c17_keccak'])],
        bounded_thorough=[('plonky2', ['t20_'])],
        vspecs=['contracts/C20/cyclic_check.vspec', 'contracts/C20/dummy_proof.vspec'],
        level_text='Unbounded deductive proof (Verus/Z3) of the third sentence: check_cyclic_proof_verifier_data returns Ok IF AND ONLY IF the trailing '
                   '4 + 4*2^cap_height public inputs of the proof spell out exactly the given verifier data (circuit digest, then every cap entry, '
                   'element by element), for every cap height <= 32, every number of leading public inputs and every value; too few public inputs is a '
                   'clean Err; VerifierOnlyCircuitData::from_slice index layout proved in bounds. For the dummy branch: CircuitBuilder::dummy_proof_and_vk returns a proof target shaped by the INNER circuit\'s common data and a '
                   'verifier-data target with the inner circuit\'s cap height (the repair of F13), and registers exactly one generator, which fills those returned targets with the dummy proof and the verifier data of the dummy circuit of the inner common data '
                   '(unit dummy_proof; builder methods and dummy_circuit / dummy_proof uninterpreted). conditionally_verify_proof lays down exactly ONE in-circuit verification, of the proof and the verifier data selected by the SAME condition with operand 0 first in both, for the given common data; '
                   'conditionally_verify_proof_or_dummy does so with the caller\'s pair first and the freshly allocated dummy pair second (the multiplexers and verify_proof are uninterpreted there). conditionally_verify_cyclic_proof (and its _or_dummy form) connects, UNCONDITIONALLY and on every call, the verifier data spelled out by the cyclic proof\'s public inputs '
                   'to the circuit\'s own verifier-data public inputs (digest and cap) and lays down exactly one verification: the cyclic proof against the circuit\'s OWN verifier data when the condition holds, the other / dummy pair otherwise. The in-circuit parts themselves (select_*, cyclic '
                   'connection of verifier data, the dummy circuit itself) are covered by a bounded stand-in only.',
        level_note='Trusted: Verus+Z3; derived PartialEq on MerkleCap/HashOut is element-wise (T11); core::array::from_fn unrolled for N = 4 (R11e); slice range '
                   'indexing and HashOut::from_partial contracts (T4); in unit dummy_proof the builder is a log of generators / verifications / connections and its methods are uninterpreted (T10h), so what is proved there is WHICH targets are selected, verified and connected, not that the multiplexers and the in-circuit verifier compute what their names say. select_*, verify_proof, '
                   'dummy_circuit/dummy_proof/cyclic_base_proof: CircuitBuilder code, bounded harness only (2 inner circuit shapes incl. lookups, condition as a witness bit and as a build-time '
                   'constant, both values, 8-11 validity scenarios with the native verifier as oracle; cyclic base proofs of 4 shapes (sparse and dense caller maps) verified against their dummy circuit; conditionally_verify_proof_or_dummy with valid / invalid supplied proofs under both conditions; thorough tier: a 3-step '
                   'cyclic chain, 4 single-element alterations of the embedded verifier data, and a two-slot (tree) cyclic circuit with foreign verifier data in either slot).',
        remainder=['select_proof_with_pis / select_verifier_data / verify_proof (the in-circuit multiplexers and verifier themselves: bounded harness only)',
                   'add_verifier_data_public_inputs, in-circuit VerifierCircuitTarget::from_slice, connect_hashes / connect_merkle_caps (bounded harness only)', 'dummy_circuit / dummy_proof / cyclic_base_proof (bounded harness only)'],
    ),
}

NOT_APPLICABLE = {
    'C01': 'completeness of the whole prove->verify pipeline is a joint algebraic property of generic closure/rayon code (prover, quotient, FRI prover, generator scheduler); no per-function contract expresses it and the code is outside the Verus subset (DESIGN.md section 5)',
    'C06': 'needs a denotational semantics of CircuitBuilder and a proof that ~2000 lines of builder code denote the native checks; no contract on an individual function expresses it (DESIGN.md section 5)',
    'C10': 'every implementing function is closure/HashMap/iterator code outside the verifier subset and the property is the logUp soundness argument (DESIGN.md section 5)',
    'C11': 'same as C06 for the STARK recursive verifier (DESIGN.md section 5)',
    'C19': '2-safety property over thread schedules, hash seeds and SIMD builds; Verus has no rayon/ahash model, Kani has no threads and rejects AVX intrinsics (DESIGN.md section 5)',
}

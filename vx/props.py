"""Property registry: which contract files (units) decide which property, and the stated remainder."""

PROPS = {
    'C14': dict(
        title='Field arithmetic is exact modular arithmetic on every representation',
        design_ref='DESIGN.md section 4 / C14',
        vspecs=['contracts/C14/gl_core.vspec', 'contracts/C14/gl_ext.vspec'],
        level_text='Unbounded deductive proof (Verus/Z3) that each base-field kernel extracted from field/src/goldilocks_field.rs returns the '
                   'mathematically correct residue for every 64/96/128/160-bit representation, with every unchecked `assume`, overflow, '
                   'underflow and debug assertion turned into a discharged obligation. Proof is the right level: the failing operand '
                   'patterns have probability ~2^-32 under sampling.',
        level_note='Trusted: Verus+Z3; the 2-instruction x86 asm model (portable twin verified without it); std overflowing_add/sub specs; '
                   'rustc compiling normalised and source text alike. Not covered: AVX2/AVX-512 packed fields, secp256k1, sqrt.',
        remainder=[
            'AVX2/AVX-512 packed fields (field/src/arch/x86_64/*): not compiled in the tested build; intrinsics outside both verifiers',
            'secp256k1 BigUint fields; sqrt / kth_root (BigUint)',
        ],
    ),
}

NOT_APPLICABLE = {
    'C01': 'completeness of the whole prove->verify pipeline is a joint algebraic property of generic closure/rayon code (prover, quotient, FRI prover, generator scheduler); no per-function contract expresses it and the code is outside the Verus subset (DESIGN.md section 5)',
    'C06': 'needs a denotational semantics of CircuitBuilder and a proof that ~2000 lines of builder code denote the native checks; no contract on an individual function expresses it (DESIGN.md section 5)',
    'C10': 'every implementing function is closure/HashMap/iterator code outside the verifier subset and the property is the logUp soundness argument (DESIGN.md section 5)',
    'C11': 'same as C06 for the STARK recursive verifier (DESIGN.md section 5)',
    'C19': '2-safety property over thread schedules, hash seeds and SIMD builds; Verus has no rayon/ahash model, Kani has no threads and rejects AVX intrinsics (DESIGN.md section 5)',
}

"""Property registry: which contract files (units) decide which property, and the stated remainder."""

PROPS = {
    'C14': dict(
        title='Field arithmetic is exact modular arithmetic on every representation',
        design_ref='DESIGN.md section 4 / C14',
        vspecs=['contracts/C14/gl_core.vspec'],
        remainder=[
            'AVX2/AVX-512 packed fields (field/src/arch/x86_64/*): not compiled in the tested build; intrinsics outside both verifiers',
            'secp256k1 BigUint fields; sqrt / kth_root (BigUint)',
        ],
    ),
}

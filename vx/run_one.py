#!/usr/bin/env python3
"""Developer helper: generate + verify one vspec, print mapped diagnostics."""
import sys, os, json
sys.path.insert(0, os.path.dirname(os.path.abspath(__file__)))
import vx
path = sys.argv[1]
probe = '--probe' in sys.argv
g = vx.generate(path, probe=probe)
os.makedirs(vx.WORK, exist_ok=True)
out = os.path.join(vx.WORK, os.path.basename(path).replace('.vspec', '') + ('_probe' if probe else '') + '.rs')
open(out, 'w').write(g['text'])
r = vx.run_verus(out, rlimit=float(os.environ.get('RLIMIT', '30')))
lines = g['text'].split('\n')
for d in r['diags']:
    k = vx.classify_diag(d)
    if k in ('warning', 'note') and '-v' not in sys.argv:
        continue
    sp = vx.primary_span(d)
    loc = ''
    if sp:
        o = g['origins'][sp['line_start'] - 1] if sp['line_start'] - 1 < len(g['origins']) else None
        loc = '%s:%d fn=%s repo=%s' % (os.path.basename(out), sp['line_start'], vx.fn_at_line(lines, sp['line_start']), o)
        txt = lines[sp['line_start'] - 1].strip()[:150]
    else:
        txt = ''
    print('[%s] %s @ %s\n      | %s' % (k, d['message'][:300], loc, txt))
    for sp2 in d.get('spans', []):
        if not sp2.get('is_primary'):
            print('      - %s: line %d: %s' % (sp2.get('label'), sp2['line_start'], lines[sp2['line_start'] - 1].strip()[:120]))
if r['status'] != 'ok' or not r.get('vr'):
    print('RAW', r.get('raw', '')[-3000:])
print(json.dumps(r.get('vr')), 'wall=%.1fs' % r['wall'])
bad = [f for f in r['funcs'] if not f['success']]
print('functions: %d ok, %d failed: %s' % (len(r['funcs']) - len(bad), len(bad), [f['function'] for f in bad]))
slow = sorted(r['funcs'], key=lambda f: -f['time'])[:5]
print('slowest:', [(f['function'], f['time'], f['rlimit']) for f in slow])

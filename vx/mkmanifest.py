#!/usr/bin/env python3
"""Regenerate MANIFEST.json from vx/props.py (claimed checks) + the not-applicable table."""
import json, os, sys
HERE = os.path.dirname(os.path.abspath(__file__))
sys.path.insert(0, HERE)
import props
ALL = ['C%02d' % i for i in range(1, 21)]
checks = []
for pid in ALL:
    if pid in props.PROPS:
        P = props.PROPS[pid]
        checks.append(dict(property_id=pid, quick_cmd='./check %s --tier quick' % pid, thorough_cmd='./check %s --tier thorough' % pid,
                           evidence_file='evidence/%s.json' % pid, replay_cmd_template='./check %s --replay {path}' % pid, engine='vx',
                           level_claimed=dict(category='proof', text=P['level_text'], design_ref=P['design_ref']),
                           level_note=P['level_note'], technique=P.get('technique', 'contract-based deductive verification (Verus) of functions re-extracted from /repo on every run')))
na = [dict(property_id=pid, reason=props.NOT_APPLICABLE.get(pid, 'designed (DESIGN.md section 4) but not built')) for pid in ALL if pid not in props.PROPS]
HK = json.load(open(os.path.join(os.path.dirname(HERE), 'hooks.json')))
m = dict(version=1, setup_cmd='true',
         hooks=dict(guard=HK['guard'], enable=HK['enable'], baseline_off_cmd='cd /repo && cargo test --workspace --no-fail-fast --offline',
                    source_commits=HK['source_commits'], add_only=True),
         engines=[dict(name='vx', path='vx/', serves_properties=sorted(props.PROPS), kind_free_text='mechanical extractor/normaliser + contract splicer + Verus runner + classifier (python3 stdlib), cargo-test replay lane for counterexample search, bounded harness lane (labelled bounded, never counted as proof) for code outside the subset of the verifier')],
         checks=checks, not_applicable=na,
         notes='Contract-based deductive verification of the real code; see DESIGN.md. exit 2 = UNDECIDED (lost anchor / unsupported construct / solver limit), never an alarm.')
json.dump(m, open(os.path.join(os.path.dirname(HERE), 'MANIFEST.json'), 'w'), indent=1)
print('MANIFEST: %d checks, %d not applicable' % (len(checks), len(na)))

"""Minimal Rust lexer utilities: segment classification (code / comment / string / char),
comment stripping that preserves line structure, bracket matching and item location.
Standard library only."""
import re


def segments(src):
    """Yield (kind, start, end) with kind in {'code','line_comment','block_comment','string','char'}.
    Handles nested block comments, raw strings, byte strings, lifetimes vs char literals."""
    i, n = 0, len(src)
    code_start = 0
    out = []

    def flush(j):
        nonlocal code_start
        if j > code_start:
            out.append(('code', code_start, j))

    while i < n:
        c = src[i]
        if c == '/' and i + 1 < n and src[i + 1] == '/':
            flush(i)
            j = src.find('\n', i)
            if j < 0:
                j = n
            out.append(('line_comment', i, j))
            i = j
            code_start = i
        elif c == '/' and i + 1 < n and src[i + 1] == '*':
            flush(i)
            depth, j = 1, i + 2
            while j < n and depth:
                if src.startswith('/*', j):
                    depth += 1
                    j += 2
                elif src.startswith('*/', j):
                    depth -= 1
                    j += 2
                else:
                    j += 1
            out.append(('block_comment', i, j))
            i = j
            code_start = i
        elif c == '"' or (c in 'rb' and re.match(r'(?:b?r#*"|b")', src[i:i + 12]) and (i == 0 or not (src[i - 1].isalnum() or src[i - 1] == '_'))):
            flush(i)
            m = re.match(r'b?r(#*)"', src[i:i + 40])
            if m:
                hashes = m.group(1)
                j = src.find('"' + hashes, i + m.end())
                j = n if j < 0 else j + 1 + len(hashes)
            else:
                j = i + (2 if c == 'b' else 1)
                while j < n and src[j] != '"':
                    j += 2 if src[j] == '\\' else 1
                j += 1
            out.append(('string', i, j))
            i = j
            code_start = i
        elif c == "'":
            # char literal or lifetime
            m = re.match(r"'(?:\\(?:x[0-9a-fA-F]{2}|u\{[0-9a-fA-F_]+\}|.)|[^\\'])'", src[i:i + 14])
            if m:
                flush(i)
                out.append(('char', i, i + m.end()))
                i += m.end()
                code_start = i
            else:
                i += 1  # lifetime
        else:
            i += 1
    flush(n)
    return out


def code_mask(src):
    """Return a list of booleans: True where the character is code (not comment/string/char)."""
    mask = [False] * len(src)
    for kind, a, b in segments(src):
        if kind == 'code':
            for k in range(a, b):
                mask[k] = True
    return mask


def strip_comments(src):
    """Remove comments, keeping every newline (so line numbers are preserved)."""
    out = []
    for kind, a, b in segments(src):
        t = src[a:b]
        if kind in ('line_comment', 'block_comment'):
            out.append('\n' * t.count('\n'))
        else:
            out.append(t)
    return ''.join(out)


OPEN = {'(': ')', '[': ']', '{': '}'}
CLOSE = {v: k for k, v in OPEN.items()}


def match_bracket(src, i, mask=None):
    """src[i] is an opening bracket in code; return index of its matching closer."""
    if mask is None:
        mask = code_mask(src)
    assert src[i] in OPEN, (i, src[i:i + 20])
    stack = []
    j = i
    n = len(src)
    while j < n:
        if mask[j]:
            c = src[j]
            if c in OPEN:
                stack.append(c)
            elif c in CLOSE:
                if not stack or stack[-1] != CLOSE[c]:
                    raise ValueError('unbalanced bracket at %d' % j)
                stack.pop()
                if not stack:
                    return j
        j += 1
    raise ValueError('unterminated bracket from %d' % i)


def find_code(src, pattern, start=0, end=None, mask=None):
    """Iterate regex matches whose first char lies in code."""
    if mask is None:
        mask = code_mask(src)
    rx = re.compile(pattern) if isinstance(pattern, str) else pattern
    pos = start
    end = len(src) if end is None else end
    while True:
        m = rx.search(src, pos, end)
        if not m:
            return
        if mask[m.start()] if m.end() > m.start() else True:
            yield m
        pos = m.end() if m.end() > m.start() else m.end() + 1


def brace_depth(src, a, b, mask):
    d = 0
    for k in range(a, b):
        if mask[k]:
            if src[k] == '{':
                d += 1
            elif src[k] == '}':
                d -= 1
    return d


def line_of(src, idx):
    return src.count('\n', 0, idx) + 1


class LocateError(Exception):
    pass


def find_block(src, header, start=0, end=None, mask=None):
    """Find a block introduced by the literal (whitespace-insensitive) `header` text, e.g.
    'impl Add for GoldilocksField'. Returns (open_brace_idx, close_brace_idx). Must be unique."""
    if mask is None:
        mask = code_mask(src)
    rx = re.compile(r'\s+'.join(re.escape(p) for p in header.split()) + r'(?![A-Za-z0-9_])')
    hits = []
    for m in find_code(src, rx, start, end, mask):
        # header must be followed (after optional where-clause / generics) by '{' before any ';'
        j = m.end()
        depth = 0
        while j < len(src):
            if mask[j]:
                c = src[j]
                if c in '([<' and c != '<':
                    depth += 1
                elif c in ')]':
                    depth -= 1
                elif c == '{' and depth == 0:
                    break
                elif c == ';' and depth == 0:
                    j = -1
                    break
            j += 1
        if j is not None and j > 0 and j < len(src):
            hits.append((m.start(), j))
    if len(hits) != 1:
        raise LocateError('block %r found %d times' % (header, len(hits)))
    o = hits[0][1]
    return o, match_bracket(src, o, mask)


def find_fn(src, name, start=0, end=None, mask=None, cfg=None, nth=None):
    """Locate `fn name` (as a direct item between start..end). Returns dict with
    attrs_start, sig_start (at 'fn' qualifiers), sig_end (index of '{'), body_open, body_close."""
    if mask is None:
        mask = code_mask(src)
    end = len(src) if end is None else end
    rx = re.compile(r'\bfn\s+' + re.escape(name) + r'\b')
    hits = []
    for m in find_code(src, rx, start, end, mask):
        if brace_depth(src, start, m.start(), mask) != 0:
            continue   # only direct children of the scope
        # find body '{' : first '{' at bracket depth 0 after the parameter list; stop at ';' (declaration only)
        j = m.end()
        depth = 0
        angle = 0
        body = None
        while j < end:
            if mask[j]:
                c = src[j]
                if c in '([':
                    depth += 1
                elif c in ')]':
                    depth -= 1
                elif c == '{' and depth == 0:
                    body = j
                    break
                elif c == ';' and depth == 0:
                    break
            j += 1
        if body is None:
            continue
        # walk back over qualifiers and attributes
        line_start = src.rfind('\n', 0, m.start()) + 1
        sig_start = line_start + (len(src[line_start:m.start()]) - len(src[line_start:m.start()].lstrip()))
        # attributes: preceding lines that (after stripping) start with '#[' or are comments/blank
        attrs_start = sig_start
        k = line_start
        attr_text = []
        while k > 0:
            prev_start = src.rfind('\n', 0, k - 1) + 1
            line = src[prev_start:k - 1].strip()
            if line.startswith('#[') or line.startswith('///') or line.startswith('//'):
                if line.startswith('#['):
                    attr_text.append(line)
                attrs_start = prev_start
                k = prev_start
            else:
                break
        hits.append(dict(attrs_start=attrs_start, sig_start=sig_start, fn_kw=m.start(), body_open=body,
                         body_close=match_bracket(src, body, mask), attrs=list(reversed(attr_text))))
    if cfg is not None:
        hits = [h for h in hits if any(cfg in a for a in h['attrs'])]
    if nth is not None:
        if nth >= len(hits):
            raise LocateError('fn %s: nth=%d but only %d found' % (name, nth, len(hits)))
        return hits[nth]
    if len(hits) != 1:
        raise LocateError('fn %s found %d times' % (name, len(hits)))
    return hits[0]


def split_params(sig):
    """Given signature text 'fn name<..>(params) -> ret', return list of parameter texts."""
    m = re.search(r'\bfn\s+\w+', sig)
    j = m.end()
    # skip generics
    if j < len(sig) and sig[j:].lstrip().startswith('<'):
        j = sig.index('<', j)
        depth = 0
        while j < len(sig):
            if sig[j] == '<':
                depth += 1
            elif sig[j] == '>' and sig[j - 1] != '-':
                depth -= 1
                if depth == 0:
                    j += 1
                    break
            j += 1
    o = sig.index('(', j)
    c = match_bracket(sig, o, [True] * len(sig))
    inner = sig[o + 1:c]
    parts, depth, cur = [], 0, ''
    for ch_i, ch in enumerate(inner):
        if ch in '([{<':
            depth += 1
        elif ch in ')]}':
            depth -= 1
        elif ch == '>' and not (ch_i > 0 and inner[ch_i - 1] == '-'):
            depth -= 1
        if ch == ',' and depth == 0:
            parts.append(cur.strip())
            cur = ''
        else:
            cur += ch
    if cur.strip():
        parts.append(cur.strip())
    return parts, sig[c + 1:]


def param_names(sig):
    parts, _ = split_params(sig)
    names = []
    for p in parts:
        p = re.sub(r'^\s*(?:mut\s+)?', '', p)
        if re.match(r'^&?\s*(?:\'\w+\s+)?(?:mut\s+)?self\b', p):
            names.append('self')
        else:
            names.append(re.sub(r'\s+', '', p.split(':')[0]).replace('mut', '', 1) if p.split(':')[0].strip().startswith('mut ') else re.sub(r'\s+', '', p.split(':')[0]))
    return names

#!/usr/bin/env python3
"""Developer helper: run every //@mutant of one vspec and report which are refused."""
import sys, os
sys.path.insert(0, os.path.dirname(os.path.abspath(__file__)))
import vx
path = sys.argv[1]
os.makedirs(vx.WORK, exist_ok=True)
for kind, val in vx.parse_vspec(path):
    if kind != 'fn':
        continue
    for mu in val.mutants:
        try:
            g = vx.generate(path, mutant=(val.id, mu))
        except vx.Undecided as e:
            print('%s/%s: UNDECIDED %s' % (val.id, mu[0], e)); continue
        out = os.path.join(vx.WORK, 'mut_%s_%s.rs' % (val.id, mu[0]))
        open(out, 'w').write(g['text'])
        r = vx.run_verus(out, rlimit=30)
        vr = r.get('vr') or {}
        bad = [f['function'] for f in r['funcs'] if not f['success']]
        print('%s/%s: %s errors=%s failed=%s' % (val.id, mu[0], 'REFUSED' if (vr.get('errors') or 0) > 0 and vr.get('verified', 0) > 0 else 'NOT REFUSED / front-end', vr.get('errors'), bad))
        os.remove(out)

"""Kani lane (DESIGN 1.2): bit-precise twins / counterexample generator on a scratch copy of the real crate."""


def run_harnesses(pid, spec, tier):
    return []

#!/bin/bash
# try_seed.sh <patch.diff> <prop> [<prop>...]: apply a seeded change to /repo, run the quick checks, always revert.
patch="$1"; shift
git -C /repo apply "$patch" || { echo "patch does not apply"; exit 3; }
for p in "$@"; do
  VERIF_NO_REPLAY=${VERIF_NO_REPLAY-1} /verif/check "$p" 2>&1 | tail -6
  echo "exit($p)=${PIPESTATUS[0]}"
done
git -C /repo checkout -- .
git -C /repo status --short | head -3

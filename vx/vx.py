"""vx: extract real functions from /repo, normalise, splice contracts, verify with Verus, classify.
See DESIGN.md section 1.1.  Standard library only."""
import hashlib
import json
import os
import re
import shlex
import subprocess
import sys
import time
from concurrent.futures import ThreadPoolExecutor

sys.path.insert(0, os.path.dirname(os.path.abspath(__file__)))
import rustlex as rl  # noqa: E402

VERIF = os.path.dirname(os.path.dirname(os.path.abspath(__file__)))
REPO = os.environ.get('VERIF_REPO', '/repo')
WORK = os.environ.get('VERIF_WORK', os.path.join(VERIF, '.work'))


class Undecided(Exception):
    pass


# ----------------------------------------------------------------------------------------------
# normalisation rules (global).  Every rule keeps the number of newlines of the text it touches.
# ----------------------------------------------------------------------------------------------

def _pad(new, old):
    d = old.count('\n') - new.count('\n')
    return new + ('\n' * d if d > 0 else '')


def _macro_calls(src, names):
    """Yield (start, end, name, [args]) for macro invocations name!(...) in code."""
    mask = rl.code_mask(src)
    rx = re.compile(r'\b(' + '|'.join(names) + r')!\s*\(')
    for m in rl.find_code(src, rx, mask=mask):
        o = m.end() - 1
        c = rl.match_bracket(src, o, mask)
        inner = src[o + 1:c]
        imask = mask[o + 1:c]
        args, depth, cur = [], 0, ''
        for k, ch in enumerate(inner):
            if imask[k]:
                if ch in '([{':
                    depth += 1
                elif ch in ')]}':
                    depth -= 1
                if ch == ',' and depth == 0:
                    args.append(cur)
                    cur = ''
                    continue
            cur += ch
        if cur.strip():
            args.append(cur)
        yield m.start(), c + 1, m.group(1), args


def _rewrite_macros(src, names, fn):
    out, pos, n = [], 0, 0
    for a, b, name, args in list(_macro_calls(src, names)):
        if a < pos:
            continue
        new = fn(name, args)
        if new is None:
            continue
        out.append(src[pos:a])
        out.append(_pad(new, src[a:b]))
        pos = b
        n += 1
    out.append(src[pos:])
    return ''.join(out), n


def _flat(s):
    return re.sub(r'\s+', ' ', s.strip())


def rule_R4(src):
    def f(name, args):
        if name in ('debug_assert', 'assert'):
            return 'vx_assert(%s)' % _flat(args[0])
        if name in ('debug_assert_eq', 'assert_eq'):
            return 'vx_assert((%s) == (%s))' % (_flat(args[0]), _flat(args[1]))
        if name in ('debug_assert_ne', 'assert_ne'):
            return 'vx_assert((%s) != (%s))' % (_flat(args[0]), _flat(args[1]))
    return _rewrite_macros(src, ['debug_assert', 'assert', 'debug_assert_eq', 'assert_eq', 'debug_assert_ne', 'assert_ne'], f)


def rule_R7(src):
    def f(name, args):
        if name == 'ensure':
            return 'if !(%s) { return Err(vx_err()); }' % _flat(args[0])
        if name == 'anyhow':
            return 'vx_err()'
        if name == 'bail':
            return 'return Err(vx_err())'
    s, n = _rewrite_macros(src, ['ensure', 'anyhow', 'bail'], f)
    # `ensure!(..);` leaves `};` which is fine in Rust
    return s, n


def _regex_rule(pattern, repl, flags=0):
    rx = re.compile(pattern, flags)

    def f(src):
        mask = rl.code_mask(src)
        out, pos, n = [], 0, 0
        for m in rl.find_code(src, rx, mask=mask):
            if m.start() < pos:
                continue
            out.append(src[pos:m.start()])
            out.append(_pad(m.expand(repl), m.group(0)))
            pos = m.end()
            n += 1
        out.append(src[pos:])
        return ''.join(out), n
    return f


def _stmt_end(src, mask, j):
    depth = 0
    while j < len(src):
        if mask[j]:
            c = src[j]
            if c in '([{':
                depth += 1
            elif c in ')]}':
                depth -= 1
            elif c == ';' and depth == 0:
                return j
        j += 1
    raise Undecided('unterminated statement')


def _split_top(s):
    parts, depth, cur = [], 0, ''
    for ch in s:
        if ch in '([{':
            depth += 1
        elif ch in ')]}':
            depth -= 1
        if ch == ',' and depth == 0:
            parts.append(cur.strip())
            cur = ''
        else:
            cur += ch
    if cur.strip():
        parts.append(cur.strip())
    return parts


def rule_R5a(src):
    """let [p0, p1, ..] = E;  ->  let p0 = (E)[0]; let p1 = (E)[1]; ..   (elements are Copy)"""
    mask = rl.code_mask(src)
    out, pos, n = [], 0, 0
    for m in rl.find_code(src, re.compile(r'\blet\s*\['), mask=mask):
        if m.start() < pos:
            continue
        o = m.end() - 1
        c = rl.match_bracket(src, o, mask)
        mm = re.match(r'\s*=\s*(?!=)', src[c + 1:])
        if not mm:
            continue
        e0 = c + 1 + mm.end()
        e1 = _stmt_end(src, mask, e0)
        expr = _flat(src[e0:e1])
        pats = _split_top(src[o + 1:c])
        if re.fullmatch(r'\*?[A-Za-z_][A-Za-z0-9_.]*', expr):
            new = ' '.join('let %s = (%s)[%d];' % (p_, expr, k) for k, p_ in enumerate(pats) if p_ != '_')
        else:
            # the right-hand side is evaluated exactly once
            tmp = 'vx_a%d' % n
            new = 'let %s = %s; ' % (tmp, expr) + ' '.join('let %s = %s[%d];' % (p_, tmp, k) for k, p_ in enumerate(pats) if p_ != '_')
        out.append(src[pos:m.start()])
        out.append(_pad(new, src[m.start():e1 + 1]))
        pos = e1 + 1
        n += 1
    out.append(src[pos:])
    return ''.join(out), n


def rule_R5b(src):
    """(a, b) = E;  ->  { let vx_t = E; a = vx_t.0; b = vx_t.1; }   (destructuring assignment)"""
    mask = rl.code_mask(src)
    out, pos, n = [], 0, 0
    rx = re.compile(r'(?:(?<=[;{}])|^)(\s*)\(\s*([A-Za-z_][A-Za-z0-9_.]*(?:\s*,\s*[A-Za-z_][A-Za-z0-9_.]*)+)\s*\)\s*=(?!=)', re.M)
    for m in rl.find_code(src, rx, mask=mask):
        if m.start() < pos:
            continue
        e0 = m.end()
        e1 = _stmt_end(src, mask, e0)
        names = [x.strip() for x in m.group(2).split(',')]
        new = m.group(1) + '{ let vx_t = %s; %s }' % (_flat(src[e0:e1]), ' '.join('%s = vx_t.%d;' % (nm, k) for k, nm in enumerate(names)))
        out.append(src[pos:m.start()])
        out.append(_pad(new, src[m.start():e1 + 1]))
        pos = e1 + 1
        n += 1
    out.append(src[pos:])
    return ''.join(out), n


def _strip_iter(e):
    """`&E` | `E.iter()` | `E` -> E (the indexed collection)."""
    e = e.strip()
    if e.endswith('.iter()'):
        e = e[:-len('.iter()')]
    elif e.endswith('.into_iter()'):
        e = e[:-len('.into_iter()')]
    if e.startswith('&'):
        e = e[1:].strip()
    return e


def _split_zip(expr):
    """Split `A.zip(B).zip(C)` at top level into [A, B, C]."""
    parts = []
    cur = expr.strip()
    while True:
        # find last top-level `.zip(` whose closing paren ends the expression
        if cur.endswith(')'):
            depth = 0
            k = len(cur) - 1
            while k >= 0:
                if cur[k] in ')]}':
                    depth += 1
                elif cur[k] in '([{':
                    depth -= 1
                    if depth == 0:
                        break
                k -= 1
            if k >= 4 and cur[k - 4:k] == '.zip':
                parts.insert(0, cur[k + 1:-1])
                cur = cur[:k - 4]
                continue
        parts.insert(0, cur)
        return parts


def _bind_pattern(pat, coll, idx):
    """Bindings for one zip component.  `&x` copies the element, `x` borrows it, tuples bind by field."""
    pat = pat.strip()
    if pat == '_':
        return ''
    byval = False
    if pat.startswith('&'):
        byval = True
        pat = pat[1:].strip()
    if pat.startswith('('):
        fields = _split_top(pat[1:-1])
        out = ''
        for k, f in enumerate(fields):
            if f.strip() == '_':
                continue
            if f.strip().startswith('('):
                raise Undecided('R6: nested tuple pattern in element position: ' + pat)
            fb = f.strip()
            bv = byval
            if fb.startswith('&'):
                bv, fb = True, fb[1:].strip()
            out += ' let %s = %s(%s)[%s].%d;' % (fb, '' if bv else '&', coll, idx, k)
        return out
    return ' let %s = %s(%s)[%s];' % (pat, '' if byval else '&', coll, idx)


def _unnest(pat, n):
    """((p0, p1), p2) with n components -> [p0, p1, p2]."""
    pat = pat.strip()
    if n == 1:
        return [pat]
    if not (pat.startswith('(') and pat.endswith(')')):
        raise Undecided('R6: pattern %r does not match a %d-way zip' % (pat, n))
    parts = _split_top(pat[1:-1])
    if len(parts) != 2:
        raise Undecided('R6: pattern %r does not match a %d-way zip' % (pat, n))
    return _unnest(parts[0], n - 1) + [parts[1]]


def _is_range(expr):
    depth = 0
    for k in range(len(expr) - 1):
        ch = expr[k]
        if ch in '([{':
            depth += 1
        elif ch in ')]}':
            depth -= 1
        elif ch == '.' and expr[k + 1] == '.' and depth == 0:
            return True
    return False


def rule_R6(src):
    """for-loops over slices/Vecs (`&v`, `v.iter()`, `.enumerate()`, `.zip(..)`) -> index loops with element lets.
    Ranges are left alone.  Loop order and the number of iterations (min of the zipped lengths) are unchanged."""
    n = 0
    ordinal_base = 0
    while True:
        mask = rl.code_mask(src)
        loops = find_loops(src)
        changed = False
        for ordinal, (kw, brace) in enumerate(loops, 1):
            if not src.startswith('for', kw):
                continue
            header = src[kw:brace]
            m = re.match(r'for\s+(.*?)\s+in\s+(.*)$', header, re.S)
            if not m:
                continue
            pat, expr = m.group(1).strip(), re.sub(r'\s+\.(?=[A-Za-z_])', '.', _flat(m.group(2)))
            if pat == '_' and _is_range(expr):
                new = 'for vx_i%d in %s' % (ordinal, m.group(2))
                src = src[:kw] + _pad(new, header) + src[brace:]
                n += 1
                changed = True
                break
            is_rev = re.match(r'^\((.*)\.\.(.*)\)\.rev\(\)$', expr) is not None
            is_range = _is_range(expr)
            if is_range and not is_rev:
                continue
            idx = 'vx_i%d' % ordinal
            enum = False
            if expr.endswith('.enumerate()'):
                enum = True
                expr = expr[:-len('.enumerate()')]
            mrev = re.match(r'^\((.*)\.\.(.*)\)\.rev\(\)$', expr)
            if mrev:
                # for i in (a..b).rev()  ->  descending while loop, same iteration order
                lo, hi = mrev.group(1).strip(), mrev.group(2).strip()
                new = 'let mut vx_r%d = %s; while vx_r%d > %s' % (ordinal, hi, ordinal, lo)
                body_prefix = ' vx_r%d = vx_r%d - 1; let %s = vx_r%d;' % (ordinal, ordinal, pat, ordinal)
                src = src[:kw] + _pad(new, header) + '{' + body_prefix + src[brace + 1:]
                n += 1
                changed = True
                break
            mch = re.match(r'^(.*)\.chunks\((.*)\)$', expr)
            if mch and '.zip(' not in expr:
                coll, kexpr = _strip_iter(mch.group(1)), mch.group(2)
                if enum:
                    parts = _split_top(pat[1:-1]) if pat.startswith('(') else None
                    if not parts or len(parts) != 2:
                        raise Undecided('R6: enumerate pattern %r' % pat)
                    idx, pat = parts[0].strip(), parts[1].strip()
                new = 'for %s in 0..vx_num_chunks((%s).len(), %s)' % (idx, coll, kexpr)
                binds = ' let %s = vx_chunk(&(%s), %s, %s);' % (pat, coll, kexpr, idx)
                src = src[:kw] + _pad(new, header) + '{' + binds + src[brace + 1:]
                n += 1
                changed = True
                break
            comps = _split_zip(expr)
            if any(re.match(r'&\s*mut\b', c_) or c_.endswith('.iter_mut()') for c_ in comps):
                raise Undecided('R6: loop over mutable references (`&mut v` / `.iter_mut()`) is outside the supported subset')
            first = comps[0]
            simple_path = re.fullmatch(r'[A-Za-z_][A-Za-z0-9_]*(?:\.[A-Za-z_0-9]+)*', first) is not None
            call_src = len(comps) == 1 and re.fullmatch(r'[A-Za-z_][A-Za-z0-9_]*(?:\.[A-Za-z_0-9]+)*\.(squeeze|as_slice|as_ref)\(\)', first) is not None
            if call_src:
                # the iterated expression is evaluated once: bind it, then index it
                tmp = 'vx_s%d' % ordinal
                pats = _unnest(pat if not enum else _split_top(pat[1:-1])[1], 1)
                if enum:
                    idx = _split_top(pat[1:-1])[0].strip()
                new = 'let %s = %s; for %s in 0..%s.len()' % (tmp, first, idx, tmp)
                binds = ''.join(_bind_pattern(p_, tmp, idx) for p_ in pats)
                src = src[:kw] + _pad(new, header) + '{' + binds + src[brace + 1:]
                n += 1
                changed = True
                break
            if not (first.startswith('&') or first.endswith('.iter()') or simple_path):
                if len(comps) == 1 and not enum:
                    continue   # not a recognised collection loop (e.g. a range held in a variable)
                if not first.endswith('.iter()') and not simple_path:
                    raise Undecided('R6: unsupported loop source %r' % expr)
            colls = [_strip_iter(c) for c in comps]
            if enum:
                parts = _split_top(pat[1:-1]) if pat.startswith('(') else None
                if not parts or len(parts) != 2:
                    raise Undecided('R6: enumerate pattern %r' % pat)
                idx = parts[0].strip()
                pat = parts[1]
            pats = _unnest(pat, len(colls))
            bound = '(%s).len()' % colls[0]
            for c in colls[1:]:
                bound = 'vx_min(%s, (%s).len())' % (bound, c)
            new = 'for %s in 0..%s' % (idx, bound)
            binds = ''.join(_bind_pattern(p_, c, idx) for p_, c in zip(pats, colls))
            src = src[:kw] + _pad(new, header) + '{' + binds + src[brace + 1:]
            n += 1
            changed = True
            break
        if not changed:
            return src, n


def rule_R5d(src):
    """for &Name { f1: v1, f2: _, .. } in E {  ->  for vx_pN in E { let v1 = vx_pN.f1; ...   (fields are copied, as the `&Struct {..}` pattern does)"""
    mask = rl.code_mask(src)
    out, pos, n = [], 0, 0
    rx = re.compile(r'\bfor\s+&\s*([A-Za-z_][A-Za-z0-9_]*)\s*\{([^{}]*)\}\s*in\s+([^{}]+?)\s*\{')
    for m in rl.find_code(src, rx, mask=mask):
        if m.start() < pos:
            continue
        n += 1
        tmp = 'vx_p%d' % n
        binds = []
        ok = True
        for f in _split_top(m.group(2)):
            f = f.strip()
            if not f or f == '..':
                continue
            if ':' in f:
                fld, var = [t.strip() for t in f.split(':', 1)]
            else:
                fld = var = f
            if not re.fullmatch(r'[A-Za-z_][A-Za-z0-9_]*', var) or not re.fullmatch(r'[A-Za-z_][A-Za-z0-9_]*', fld):
                ok = False
                break
            if var != '_':
                binds.append('let %s = %s.%s;' % (var, tmp, fld))
        if not ok:
            n -= 1
            continue
        new = 'for %s in %s { %s' % (tmp, m.group(3).strip(), ' '.join(binds))
        out.append(src[pos:m.start()])
        out.append(_pad(new, src[m.start():m.end()]))
        pos = m.end()
    out.append(src[pos:])
    return ''.join(out), n


def rule_R11c(src):
    """(lo..hi).map(|p| E).collect::<Result<Vec<_>, _>>()   [optionally followed by `?`]
       ->  { let mut vx_out = Vec::new(); for p in lo..hi { match E { Ok(vx_v) => { vx_out.push(vx_v); } Err(vx_e) => { return Err(vx_e); } } } Ok(vx_out) }
    collect::<Result<..>>() evaluates the iterator in order and stops at the first Err, which it returns; the rule is applied only where that Err is
    also what the enclosing function returns: the expression is followed by `?` or is the tail expression of the function (checked by the type checker:
    the early `return Err(e)` must have the function's return type)."""
    mask = rl.code_mask(src)
    out, pos, n = [], 0, 0
    rx = re.compile(r'\(([^()]*?)\.\.([^()]*?)\)\s*\.map\(\s*\|\s*([A-Za-z_][A-Za-z0-9_]*)\s*\|')
    for m in rl.find_code(src, rx, mask=mask):
        if m.start() < pos:
            continue
        o = src.rfind('(', m.start(), m.end() - 1)
        o = src.index('.map(', m.start()) + 4
        c = rl.match_bracket(src, o, mask)
        tail = re.match(r'\s*\.collect::<Result<(?:Vec<_>|_), _>>\(\)', src[c + 1:])
        if not tail:
            continue
        body_expr = src[m.end():c].strip()
        var = m.group(3)
        if var == '_':
            var = 'vx_k'
        end = c + 1 + tail.end()
        nl = '\n'
        new = ('{ let mut vx_out = Vec::new(); for %s in %s..%s {%s match %s { Ok(vx_v) => { vx_out.push(vx_v); } Err(vx_e) => { return Err(vx_e); } } } Ok(vx_out) }'
               % (var, m.group(1).strip(), m.group(2).strip(), nl, _flat(body_expr)))
        out.append(src[pos:m.start()])
        out.append(_pad(new, src[m.start():end]))
        pos = end
        n += 1
    out.append(src[pos:])
    return ''.join(out), n


def rule_R11(src):
    """(lo..hi).map(|p| E).collect()  ->  { let mut vx_out = Vec::new(); for p in lo..hi { vx_out.push(E); } vx_out }
    (std iterators are evaluated in order by collect; the closure is a single expression)"""
    mask = rl.code_mask(src)
    out, pos, n = [], 0, 0
    rx = re.compile(r'\(([^()]*?)\.\.([^()]*?)\)\s*\.map\(\s*\|\s*([A-Za-z_][A-Za-z0-9_]*)\s*\|')
    for m in rl.find_code(src, rx, mask=mask):
        if m.start() < pos:
            continue
        o = src.rfind('(', m.start(), m.end() - 1)
        o = src.index('.map(', m.start()) + 4
        c = rl.match_bracket(src, o, mask)
        tail = re.match(r'\s*\.collect(?:::<Vec<_>>)?\(\)', src[c + 1:])
        if not tail:
            continue
        body_expr = src[m.end():c].strip()
        var = m.group(3)
        loopvar = 'vx_k' if var == '_' else var
        end = c + 1 + tail.end()
        nl = '\n' if src[m.start():end].count('\n') >= 1 else ' '
        new = '{ let mut vx_out = Vec::new(); for %s in %s..%s {%svx_out.push(%s); } vx_out }' % (loopvar, m.group(1).strip(), m.group(2).strip(), nl, _flat(body_expr))
        out.append(src[pos:m.start()])
        out.append(_pad(new, src[m.start():end]))
        pos = end
        n += 1
    out.append(src[pos:])
    return ''.join(out), n


def rule_R11b(src):
    """E.iter().map(|p| BODY).collect()  ->  { let mut vx_out = Vec::new(); for p in E.iter() { vx_out.push(BODY); } vx_out }
    BODY may be a block with side effects on locals/self; collect() evaluates the iterator in order."""
    mask = rl.code_mask(src)
    out, pos, n = [], 0, 0
    rx = re.compile(r'(&?\s*[A-Za-z_][A-Za-z0-9_]*(?:\s*\.\s*[A-Za-z_0-9]+)*)\s*\.iter\(\)\s*\.map\(\|\s*([^|]+?)\s*\|')
    for m in rl.find_code(src, rx, mask=mask):
        if m.start() < pos:
            continue
        o = src.rfind('.map(', m.start(), m.end()) + 4
        c = rl.match_bracket(src, o, mask)
        tail = re.match(r'\s*\.(?:collect(?:::<Vec<_>>)?|collect_vec)\(\)', src[c + 1:])
        if not tail:
            continue
        body_expr = src[m.end():c].strip()
        recv = re.sub(r'\s+', '', m.group(1))
        amp = ''
        if recv.startswith('&'):
            amp, recv = '&', recv[1:]
        end = c + 1 + tail.end()
        nl = '\n' if src[m.start():end].count('\n') >= 1 else ' '
        new = amp + '{ let mut vx_out = Vec::new(); for %s in %s.iter() {%slet vx_e = %s; vx_out.push(vx_e); } vx_out }' % (m.group(2), recv, nl, _flat(body_expr))
        out.append(src[pos:m.start()])
        out.append(_pad(new, src[m.start():end]))
        pos = end
        n += 1
    out.append(src[pos:])
    return ''.join(out), n


def rule_R11d(src):
    """c.many((lo..hi).map(|i| E));  ->  for i in lo..hi { c.one(E); }     (StridedConstraintConsumer::many yields each item with one())"""
    mask = rl.code_mask(src)
    out, pos, n = [], 0, 0
    rx = re.compile(r'([A-Za-z_][A-Za-z0-9_]*)\.many\(\s*\(([^()]*?)\.\.([^()]*?)\)\s*\.map\(\|\s*([A-Za-z_][A-Za-z0-9_]*)\s*\|')
    for m in rl.find_code(src, rx, mask=mask):
        if m.start() < pos:
            continue
        o = src.index('.map(', m.start()) + 4
        c = rl.match_bracket(src, o, mask)
        tail = re.match(r'\s*\)\s*;', src[c + 1:])
        if not tail:
            continue
        body_expr = src[m.end():c].strip()
        end = c + 1 + tail.end()
        nl = '\n' if src[m.start():end].count('\n') >= 1 else ' '
        new = 'for %s in %s..%s {%s%s.one(%s); }' % (m.group(4), m.group(2).strip(), m.group(3).strip(), nl, m.group(1), _flat(body_expr))
        out.append(src[pos:m.start()])
        out.append(_pad(new, src[m.start():end]))
        pos = end
        n += 1
    out.append(src[pos:])
    return ''.join(out), n


GLOBAL_RULES = [
    ('R1', 'attributes removed (#[inline], #[allow], #[unroll_for_loops], #[must_use], #[rustfmt::skip], #[cfg] of the selected arm)',
     _regex_rule(r'#\[(?:inline|allow|unroll_for_loops|must_use|rustfmt::skip|cfg|cold|doc)[^\]]*\]', '')),
    ('R1b', 'const_assert!(..) removed (evaluated by rustc at compile time)', _regex_rule(r'\bconst_assert!\([^;]*\);', '')),
    ('R5a', 'array pattern `let [a,b,..] = e;` -> indexed lets', rule_R5a),
    ('R5b', 'destructuring assignment `(a, b) = e;` -> temporary + field assignments', rule_R5b),
    ('R5d', 'struct pattern in a for header `for &S { f: v, .. } in e` -> loop variable + field lets', rule_R5d),
    ('R11c', '(a..b).map(|i| E).collect::<Result<Vec<_>, _>>() -> push loop returning the first Err', rule_R11c),
    ('R11', '(a..b).map(|i| E).collect() -> push loop', rule_R11),
    ('R11b', 'v.iter().map(|x| BODY).collect() / .collect_vec() -> push loop', rule_R11b),
    ('R11d', 'consumer.many((a..b).map(|i| E)) -> for i in a..b { consumer.one(E) }', rule_R11d),
    ('R6', 'for-loops over slices (&v, .iter(), .enumerate(), .zip(), (a..b).rev()) -> index loops with element lets', rule_R6),
    ('R2', 'branch_hint() removed (empty asm!, no semantics)', _regex_rule(r'\bbranch_hint\(\)\s*;', '')),
    ('R3', 'plonky2_util::assume(p) renamed to util_assume(p) with `requires p` (assumption becomes an obligation)',
     _regex_rule(r'(?<![A-Za-z0-9_:.])assume\(', 'util_assume(')),
    ('R4', 'debug_assert!/assert!/assert_eq! -> vx_assert(c) with `requires c` (messages dropped)', rule_R4),
    ('R7', 'ensure!(c,..) -> if !(c) { return Err(vx_err()); }; anyhow!(..) -> vx_err() (messages dropped)', rule_R7),
    ('R8', '`unsafe` keyword dropped (callee SAFETY conditions are `requires`)', _regex_rule(r'\bunsafe\s*(?=\{)', '')),
]


# ----------------------------------------------------------------------------------------------
# vspec parsing
# ----------------------------------------------------------------------------------------------

def parse_kv(s):
    d = {}
    for tok in shlex.split(s):
        if '=' in tok:
            k, v = tok.split('=', 1)
            d[k] = v
        else:
            d[tok] = True
    return d


class FnUnit:
    def __init__(self, kv, lineno):
        self.kv = kv
        self.id = kv['id']
        self.file = kv['file']
        self.name = kv['name']
        self.within = kv.get('within')
        self.cfg = kv.get('cfg')
        self.nth = int(kv['nth']) if 'nth' in kv else None
        self.sig = []
        self.loops = {}      # ordinal -> [lines]
        self.anchors = []    # (where, nth, anchor_text, [lines])
        self.rewrites = []   # (rule, regex, repl)
        self.mutants = []    # (name, regex, repl)
        self.replay = []     # [(pattern on obligation text, rust test body lines)]: directed search against an executable oracle
        self.lineno = lineno


def parse_vspec(path):
    """Return list of chunks: ('text', [lines]) | ('include', name) | ('item', kv) | ('fn', FnUnit)."""
    chunks = []
    cur_text = []
    fn = None
    sink = None
    lines = open(path).read().split('\n')
    for ln, line in enumerate(lines, 1):
        s = line.strip()
        if s.startswith('//@'):
            d = s[3:].strip()
            word = d.split(None, 1)[0] if d else ''
            rest = d[len(word):].strip()
            if fn is None:
                if word == 'include':
                    if cur_text:
                        chunks.append(('text', cur_text))
                        cur_text = []
                    chunks.append(('include', rest))
                elif word == 'import':
                    if cur_text:
                        chunks.append(('text', cur_text))
                        cur_text = []
                    chunks.append(('import', rest.split()))
                elif word == 'item':
                    if cur_text:
                        chunks.append(('text', cur_text))
                        cur_text = []
                    chunks.append(('item', parse_kv(rest)))
                elif word == 'fn':
                    if cur_text:
                        chunks.append(('text', cur_text))
                        cur_text = []
                    fn = FnUnit(parse_kv(rest), ln)
                    sink = None
                elif word in ('ensures', 'hint') and chunks and chunks[-1][0] == 'item':
                    chunks[-1][1].setdefault('_' + word, []).append(rest)
                elif word in ('property', 'unit', 'note', 'trusted', 'assume'):
                    chunks.append(('meta', (word, rest)))
                else:
                    raise Undecided('%s:%d unknown directive %s' % (path, ln, word))
            else:
                if word == 'sig':
                    sink = fn.sig
                elif word == 'replay':
                    sink = []
                    fn.replay.append((rest, sink))
                elif word == 'loop':
                    sink = fn.loops.setdefault(int(rest), [])
                elif re.match(r'(before|after)(\[\d+\])?$', word):
                    m = re.match(r'(before|after)(?:\[(\d+)\])?$', word)
                    sink = []
                    fn.anchors.append((m.group(1), int(m.group(2)) if m.group(2) else None, rest, sink))
                elif word == 'rewrite':
                    rule, r = rest.split(None, 1)
                    a, b = r.split(' ==> ', 1) if ' ==> ' in r else (r.rstrip().removesuffix('==>').rstrip(), '')
                    fn.rewrites.append((rule, a.strip(), b.strip()))
                    sink = None
                elif word == 'mutant':
                    name, r = rest.split(None, 1)
                    a, b = r.split(' ==> ', 1) if ' ==> ' in r else (r.rstrip().removesuffix('==>').rstrip(), '')
                    fn.mutants.append((name, a.strip(), b.strip()))
                    sink = None
                elif word == 'end':
                    chunks.append(('fn', fn))
                    fn = None
                    sink = None
                else:
                    raise Undecided('%s:%d unknown directive %s inside fn' % (path, ln, word))
        else:
            if fn is not None:
                if sink is not None:
                    sink.append(line)
                elif s:
                    raise Undecided('%s:%d stray text inside //@fn before //@sig' % (path, ln))
            else:
                cur_text.append(line)
    if fn is not None:
        raise Undecided('%s: unterminated //@fn %s' % (path, fn.id))
    if cur_text:
        chunks.append(('text', cur_text))
    return chunks


# ----------------------------------------------------------------------------------------------
# extraction
# ----------------------------------------------------------------------------------------------

_src_cache = {}


def repo_src(rel):
    p = os.path.join(REPO, rel)
    if p not in _src_cache:
        try:
            s = open(p).read()
        except OSError as e:
            raise Undecided('cannot read %s: %s' % (p, e))
        _src_cache[p] = (s, rl.code_mask(s))
    return _src_cache[p]


def locate_scope(src, mask, within):
    a, b = 0, len(src)
    if within:
        for hdr in within.split(' ;; '):
            try:
                o, c = rl.find_block(src, hdr.strip(), a, b, mask)
            except rl.LocateError as e:
                raise Undecided('lost anchor: ' + str(e))
            a, b = o + 1, c
    return a, b


def extract_fn(u):
    src, mask = repo_src(u.file)
    a, b = locate_scope(src, mask, u.within)
    try:
        h = rl.find_fn(src, u.name, a, b, mask, cfg=u.cfg, nth=u.nth)
    except rl.LocateError as e:
        raise Undecided('lost anchor: %s in %s' % (e, u.file))
    sig = src[h['sig_start']:h['body_open']]
    body = src[h['body_open'] + 1:h['body_close']]
    first_line = rl.line_of(src, h['body_open'])
    return dict(sig=sig, body=body, first_line=first_line, last_line=rl.line_of(src, h['body_close']),
                sig_line=rl.line_of(src, h['sig_start']), attrs=h['attrs'])


def extract_item(kv):
    src, mask = repo_src(kv['file'])
    a, b = locate_scope(src, mask, kv.get('within'))
    kind, name = kv['kind'], kv['name']
    if kind in ('const', 'static'):
        rx = re.compile(r'(?:pub(?:\([a-z]+\))?\s+)?' + kind + r'\s+' + re.escape(name) + r'\s*:')
        hits = [m for m in rl.find_code(src, rx, a, b, mask) if rl.brace_depth(src, a, m.start(), mask) == 0]
        if len(hits) != 1:
            raise Undecided('lost anchor: %s %s found %d times in %s' % (kind, name, len(hits), kv['file']))
        j = hits[0].end()
        depth = 0
        while j < b:
            if mask[j]:
                if src[j] in '([{':
                    depth += 1
                elif src[j] in ')]}':
                    depth -= 1
                elif src[j] == ';' and depth == 0:
                    break
            j += 1
        text = src[hits[0].start():j + 1]
        line = rl.line_of(src, hits[0].start())
    elif kind in ('struct', 'enum'):
        rx = re.compile(r'(?:pub(?:\([a-z]+\))?\s+)?' + kind + r'\s+' + re.escape(name) + r'\b')
        hits = [m for m in rl.find_code(src, rx, a, b, mask) if rl.brace_depth(src, a, m.start(), mask) == 0]
        if len(hits) != 1:
            raise Undecided('lost anchor: %s %s found %d times in %s' % (kind, name, len(hits), kv['file']))
        j = hits[0].end()
        while src[j] not in '{(;' or not mask[j]:
            j += 1
        if src[j] == ';':
            e = j
        else:
            e = rl.match_bracket(src, j, mask)
            if src[j] == '(':
                e = src.index(';', e)
        text = src[hits[0].start():e + 1]
        line = rl.line_of(src, hits[0].start())
    else:
        raise Undecided('item kind %s unsupported' % kind)
    text = rl.strip_comments(text)
    text = re.sub(r'#\[[^\]]*\]\s*', '', text)   # field/serde attributes
    text = re.sub(r'\bpub\((?:crate|super)\)', 'pub', text)   # visibility is irrelevant in the single-file crate
    if kind in ('const', 'static') and not text.lstrip().startswith('pub') and not kv.get('_ensures'):
        text = 'pub ' + text.lstrip()
    if kind == 'struct' and '{' in text:
        head, _, rest = text.partition('{')
        rest = re.sub(r'(?m)^(\s*)(?!pub\b)([a-z_][A-Za-z0-9_]*\s*:)', r'\1pub \2', rest)
        text = head + '{' + rest
    if kv.get('attr'):
        text = ''.join('#[%s]\n' % a for a in kv['attr'].split(';;')) + text
    if kind in ('struct', 'enum') and kv.get('derive'):
        text = '#[derive(%s)]\n' % kv['derive'] + text
    if kind == 'const' and kv.get('_ensures'):
        m = re.match(r'(?:pub(?:\([a-z]+\))?\s+)?const\s+(\w+)\s*:\s*([^=]+?)\s*=\s*(.*);\s*$', text, re.S)
        if not m:
            raise Undecided('cannot parse const item %s' % name)
        text = 'exec const %s: %s\n    ensures %s\n{ %s\n%s }' % (m.group(1), m.group(2), ', '.join(kv['_ensures']),
                                                                ' '.join(kv.get('_hint', [])), m.group(3))
    if kv.get('as'):
        text = re.sub(r'\b' + re.escape(name) + r'\b', kv['as'], text, count=1)
    if kv.get('subst'):
        for pair in kv['subst'].split(';;'):
            x, y = pair.split('=>')
            text = text.replace(x, y)
    return text, line


def normalise(body, unit_rewrites):
    """comment stripping, unit-local rewrites that match the source text, global rules, remaining unit-local rewrites"""
    fired = {}
    s = rl.strip_comments(body)
    pending = []
    for rid, rx, repl in unit_rewrites:
        f = _regex_rule(rx, repl, re.S)
        s2, n = f(s)
        if n == 0:
            pending.append((rid, rx, repl))
        else:
            s = s2
            fired[rid] = fired.get(rid, 0) + n
    for rid, desc, f in GLOBAL_RULES:
        s, n = f(s)
        if n:
            fired[rid] = fired.get(rid, 0) + n
    for rid, rx, repl in pending:
        f = _regex_rule(rx, repl, re.S)
        s, n = f(s)
        if n == 0:
            raise Undecided('lost anchor: unit rewrite %s /%s/ matched nothing' % (rid, rx))
        fired[rid] = fired.get(rid, 0) + n
    return s, fired


def _anchor_rx(text):
    toks = re.findall(r'[A-Za-z0-9_]+|\S', text)
    rx = r'\s*'.join(re.escape(t) for t in toks)
    if toks and re.match(r'\w', toks[0]):
        rx = r'(?<![A-Za-z0-9_])' + rx
    if toks and re.match(r'\w', toks[-1][-1]):
        rx = rx + r'(?![A-Za-z0-9_])'
    return re.compile(rx)


def find_loops(body):
    """Return list of (kw_idx, brace_idx) for each loop keyword in order of appearance."""
    mask = rl.code_mask(body)
    res = []
    for m in rl.find_code(body, re.compile(r'(?<![A-Za-z0-9_.])(for|while|loop)(?![A-Za-z0-9_])'), mask=mask):
        # `for` in `impl X for Y` / `for<'a>` never appears in bodies we handle
        j = m.end()
        depth = 0
        while j < len(body):
            if mask[j]:
                c = body[j]
                if c in '([':
                    depth += 1
                elif c in ')]':
                    depth -= 1
                elif c == '{' and depth == 0:
                    break
            j += 1
        if j < len(body):
            res.append((m.start(), j))
    return res


def splice(u, ex, probe=False, mutant=None):
    """Build the output lines of one unit fn.  Returns (lines, origins, info)."""
    body, fired = normalise(ex['body'], u.rewrites)
    if mutant is not None:
        name, rx, repl = mutant
        new, n = re.subn(rx, repl, body, count=1, flags=re.S)
        if n == 0:
            raise Undecided('mutant %s of %s does not apply' % (name, u.id))
        body = _pad(new, body)
    # parameter-name fidelity
    try:
        real = rl.param_names(ex['sig'])
        spec = rl.param_names('\n'.join(u.sig))
    except Exception as e:  # noqa
        raise Undecided('cannot parse signature of %s: %s' % (u.id, e))
    real_n = [re.sub(r'^\(.*\)$', '_tuple', x) for x in real]
    spec_n = [re.sub(r'__in$', '', x) for x in spec]
    if len(real_n) != len(spec_n) or any(a != b and not a.startswith('(') and a != '_tuple' for a, b in zip(real_n, spec_n)):
        raise Undecided('signature drift in %s: repo has %s, contract has %s' % (u.id, real, spec))
    # insertion points: list of (char_idx, text, kind)
    inserts = []
    loops = find_loops(body)
    for ordinal, lines in u.loops.items():
        if ordinal < 1 or ordinal > len(loops):
            raise Undecided('lost anchor: %s has %d loops, contract names loop %d' % (u.id, len(loops), ordinal))
        inserts.append((loops[ordinal - 1][1], '\n' + '\n'.join(lines) + '\n', 'loop'))
    undeclared = [k + 1 for k in range(len(loops)) if (k + 1) not in u.loops]
    mask = rl.code_mask(body)
    for where, nth, anchor, lines in u.anchors:
        ms = re.match(r'@(before-loop|after-loop|loop-body|loop-end)\s+(\d+)$', anchor)
        if ms:
            k = int(ms.group(2))
            if k < 1 or k > len(loops):
                raise Undecided('lost anchor: %s has %d loops, contract names loop %d' % (u.id, len(loops), k))
            kw, brace = loops[k - 1]
            if ms.group(1) == 'before-loop':
                ls = body.rfind('\n', 0, kw) + 1
                inserts.append((ls, '\n'.join(lines) + '\n', 'ghost'))
            elif ms.group(1) == 'loop-body':
                le = body.find('\n', brace)
                le = len(body) if le < 0 else le
                inserts.append((le, '\n' + '\n'.join(lines), 'ghost'))
            elif ms.group(1) == 'loop-end':
                # last position inside the loop body (just before its closing brace)
                close = rl.match_bracket(body, brace, mask)
                inserts.append((close, '\n' + '\n'.join(lines) + '\n', 'ghost'))
            else:
                close = rl.match_bracket(body, brace, mask)
                le = body.find('\n', close)
                le = len(body) if le < 0 else le
                inserts.append((le, '\n' + '\n'.join(lines), 'ghost'))
            continue
        if anchor == '@end':
            inserts.append((len(body.rstrip()), '\n' + '\n'.join(lines) + '\n', 'ghost'))
            continue
        if anchor in ('@tail', '@start'):
            if anchor == '@start':
                inserts.append((0, '\n' + '\n'.join(lines) + '\n', 'ghost'))
            else:
                # start of the tail expression: after the last top-level `;` or `}` that ends a statement
                depth, last = 0, 0
                k = 0
                stripped_len = len(body.rstrip())
                while k < stripped_len:
                    if mask[k]:
                        c = body[k]
                        if c in '([{':
                            depth += 1
                        elif c in ')]}':
                            depth -= 1
                        elif c == ';' and depth == 0:
                            last = k + 1
                    k += 1
                if not body[last:stripped_len].strip():
                    inserts.append((stripped_len, '\n' + '\n'.join(lines) + '\n', 'ghost'))
                else:
                    # first non-blank char of the tail expression; a preceding block statement (if/for without `;`) is part of
                    # the scanned region, so step to the last line start at depth 0 that begins the final expression
                    tail_start = last + (len(body[last:]) - len(body[last:].lstrip()))
                    # skip over complete block statements (`for .. {}`, `if .. {}`) that precede the tail expression
                    pos_ = tail_start
                    while True:
                        mkw = re.match(r'(for|while|loop|if|match|let)\b', body[pos_:])
                        if not mkw:
                            break
                        # find end of this block statement
                        d2, q = 0, pos_
                        endq = None
                        while q < stripped_len:
                            if mask[q]:
                                ch = body[q]
                                if ch in '([{':
                                    d2 += 1
                                elif ch in ')]}':
                                    d2 -= 1
                                    if d2 == 0 and ch == '}':
                                        rest = body[q + 1:stripped_len]
                                        if re.match(r'\s*else\b', rest):
                                            pass
                                        else:
                                            endq = q + 1
                                            break
                            q += 1
                        if endq is None or not body[endq:stripped_len].strip():
                            break
                        pos_ = endq + (len(body[endq:]) - len(body[endq:].lstrip()))
                    ls = body.rfind('\n', 0, pos_) + 1
                    inserts.append((ls, '\n'.join(lines) + '\n', 'ghost'))
            continue
        hits = [m for m in rl.find_code(body, _anchor_rx(anchor), mask=mask)]
        if nth is None and len(hits) != 1:
            raise Undecided('lost anchor: %r matches %d times in %s' % (anchor, len(hits), u.id))
        if nth is not None and nth > len(hits):
            raise Undecided('lost anchor: %r occurrence %d missing in %s' % (anchor, nth, u.id))
        m = hits[(nth or 1) - 1]
        if where == 'before':
            ls = body.rfind('\n', 0, m.start()) + 1
            if body[ls:m.start()].strip():
                raise Undecided('anchor %r (before) is not at the start of a line in %s' % (anchor, u.id))
            inserts.append((ls, '\n'.join(lines) + '\n', 'ghost'))
        else:
            le = body.find('\n', m.end())
            le = len(body) if le < 0 else le
            if body[m.end():le].strip():
                raise Undecided('anchor %r (after) is not at the end of a line in %s' % (anchor, u.id))
            inserts.append((le, '\n' + '\n'.join(lines), 'ghost'))
    # R5: tuple-pattern parameters are bound mechanically at the start of the body
    binds = ''
    parts, _ = rl.split_params(ex['sig'])
    for k, p_ in enumerate(parts):
        if p_.lstrip().startswith('('):
            pat = p_[:rl.match_bracket(p_, p_.index('('), [True] * len(p_)) + 1]
            binds += ' let %s = %s;' % (pat.strip(), spec[k])
            fired['R5'] = fired.get('R5', 0) + 1
    # R5c: `mut x: T` parameter whose contract header declares it immutable -> shadowed by `let mut x = x;`
    sparts, _ = rl.split_params('\n'.join(u.sig))
    for k, p_ in enumerate(parts):
        if re.match(r'\s*mut\s+\w+\s*:', p_) and k < len(sparts) and not re.match(r'\s*mut\s', sparts[k]):
            nm = re.match(r'\s*mut\s+(\w+)', p_).group(1)
            binds += ' let mut %s = %s;' % (nm, spec[k])
            fired['R5c'] = fired.get('R5c', 0) + 1
    if binds:
        inserts.append((0, binds, 'R5'))
    if probe:
        inserts.append((0, ' assert(false); /*VX-PROBE*/', 'probe'))
    # assemble with origin tracking
    inserts.sort(key=lambda t: (t[0], 0 if t[2] == 'R5' else (2 if t[2] == 'probe' else 1)))
    out_lines, origins = [], []
    cur_line = ex['first_line']
    pos = 0
    buf = ''
    pieces = []
    for idx, text, kind in inserts:
        pieces.append((body[pos:idx], True))
        pieces.append((text, False))
        pos = idx
    pieces.append((body[pos:], True))
    line_buf, line_org = '', None
    for text, is_src in pieces:
        for ch in text:
            if ch == '\n':
                out_lines.append(line_buf)
                origins.append(line_org)
                line_buf, line_org = '', None
                if is_src:
                    cur_line += 1
            else:
                line_buf += ch
                if is_src and not ch.isspace() and line_org is None:
                    line_org = cur_line
                if is_src and not ch.isspace():
                    line_org = line_org or cur_line
    out_lines.append(line_buf)
    origins.append(line_org)
    # fidelity: removing the inserted pieces gives back the normalised body
    rebuilt = ''.join(t for t, is_src in pieces if is_src)
    if rebuilt != body:
        raise Undecided('internal: fidelity check failed for ' + u.id)
    info = dict(rules=fired, loops=len(loops), loops_without_contract=undeclared,
                sha256=hashlib.sha256(ex['body'].encode()).hexdigest(), norm_body=body)
    sig_lines = list(u.sig)
    while sig_lines and not sig_lines[-1].strip():
        sig_lines.pop()
    lines = sig_lines + ['{'] + out_lines + ['}']
    orgs = [None] * (len(sig_lines) + 1) + origins + [None]
    return lines, orgs, info


def generate(vspec_path, probe=False, mutant=None):
    """mutant = (unit_id, (name, rx, repl)) or None.  Returns dict(text, origins, units, meta)."""
    chunks = parse_vspec(vspec_path)
    out, org = [], []
    units = {}
    meta = []
    fn_ranges = []
    imports = []

    def emit(lines, origins=None, tag=None):
        for k, l in enumerate(lines):
            out.append(l)
            org.append(origins[k] if origins else None)

    def process(chunks_):
        for kind, val in chunks_:
            if kind == 'text':
                emit(val)
            elif kind == 'meta':
                meta.append(val)
            elif kind == 'include':
                if val in included:
                    continue
                included.add(val)
                p = os.path.join(VERIF, 'prelude', val + '.rs')
                emit(['// ---- include %s ----' % val])
                process(parse_vspec(p))
            elif kind == 'import':
                ipath, iid = val[0], val[1]
                other = parse_vspec(os.path.join(VERIF, ipath))
                found = [v for k, v in other if k == 'fn' and v.id == iid]
                if len(found) != 1:
                    raise Undecided('import %s %s: unit not found' % (ipath, iid))
                sig_lines = list(found[0].sig)
                emit(['// ---- contract imported from %s::%s (proved there; checked in the same run) ----' % (ipath, iid),
                      '#[verifier::external_body]'] + sig_lines + ['{ unimplemented!() }'])
                imports.append((ipath, iid))
            elif kind == 'item':
                text, line = extract_item(val)
                ls = text.split('\n')
                emit(ls, [(val['file'], line + k) for k in range(len(ls))])
            elif kind == 'fn':
                u = val
                ex = extract_fn(u)
                mu = mutant[1] if (mutant and mutant[0] == u.id) else None
                lines, origins, info = splice(u, ex, probe=probe, mutant=mu)
                start = len(out) + 1
                emit(lines, [(u.file, o) if o else None for o in origins])
                fn_ranges.append((start, len(out), u.id))
                info.update(file=u.file, name=u.name, within=u.within, sig_line=ex['sig_line'],
                            lines=[ex['first_line'], ex['last_line']], raw_sig=re.sub(r'\s+', ' ', ex['sig']).strip(),
                            raw_body=ex['body'], mutants=[m[0] for m in u.mutants], replay=list(u.replay),
                            spec_name=(re.search(r'\bfn\s+(\w+)', '\n'.join(u.sig)) or [None, None])[1],
                            ensures=_count_clauses(u.sig))
                units[u.id] = info

    included = set()
    process(chunks)
    return dict(text='\n'.join(out) + '\n', origins=org, units=units, meta=meta, fn_ranges=fn_ranges, chunks=chunks, imports=imports)


def _count_clauses(sig_lines):
    txt = '\n'.join(sig_lines)
    m = re.search(r'\b(requires|ensures)\b', txt)
    if not m:
        return 0
    tail = txt[m.start():]
    depth, n = 0, 0
    for ch in tail:
        if ch in '([{':
            depth += 1
        elif ch in ')]}':
            depth -= 1
        elif ch == ',' and depth == 0:
            n += 1
    return max(n, 1)


# ----------------------------------------------------------------------------------------------
# Verus runner and classification
# ----------------------------------------------------------------------------------------------

VERIFICATION_ERRORS = [
    'postcondition not satisfied', 'precondition not satisfied', 'assertion failed',
    'invariant not satisfied', 'possible arithmetic underflow/overflow', 'possible division by zero',
    'possible bit shift underflow/overflow', 'decreases not satisfied', 'could not prove termination',
    'loop invariant', 'unreachable', 'possible overflow', 'possible underflow', 'assertion failure',
    'cannot show invariant holds', 'constant evaluates to', 'possible truncation', 'by (compute)', 'assert_by_compute',
    'index out of bounds', 'might not be allowed', 'refinement', 'open invariant', 'cannot prove',
    'requires not satisfied', 'not satisfied', 'assertion not satisfied',
]
RESOURCE_ERRORS = ['Resource limit (rlimit) exceeded', 'resource limit', 'timed out', 'rlimit']


def run_verus(path, rlimit=30, seed=None, timeout=900, extra=None):
    cmd = ['verus', path, '--output-json', '--time-expanded', '--error-format=json', '--multiple-errors', '8',
           '--rlimit', str(rlimit), '--triggers-mode', 'silent', '--no-report-long-running', '--num-threads', '4']
    if seed is not None:
        cmd += ['--smt-option', 'smt.random_seed=%d' % seed]
    if extra:
        cmd += extra
    t0 = time.time()
    env = dict(os.environ)
    try:
        p = subprocess.run(cmd, capture_output=True, text=True, timeout=timeout, cwd=os.path.dirname(path), env=env)
    except subprocess.TimeoutExpired:
        return dict(status='timeout', wall=time.time() - t0, cmd=' '.join(cmd), diags=[], funcs=[], raw='timeout')
    wall = time.time() - t0
    js = None
    try:
        js = json.loads(p.stdout)
    except Exception:
        # stdout may contain trailing notes; find the outermost JSON object
        m = re.search(r'\{.*\}', p.stdout, re.S)
        if m:
            try:
                js = json.loads(m.group(0))
            except Exception:
                js = None
    diags = []
    for line in p.stderr.split('\n'):
        line = line.strip()
        if line.startswith('{'):
            try:
                d = json.loads(line)
            except Exception:
                continue
            if d.get('$message_type') == 'diagnostic':
                diags.append(d)
    funcs = []
    vr = {}
    if js:
        vr = js.get('verification-results', {})
        for mod in js.get('times-ms', {}).get('smt', {}).get('smt-run-module-times', []):
            for f in mod.get('function-breakdown', []):
                funcs.append(f)
    return dict(status='ok', rc=p.returncode, wall=wall, cmd=' '.join(cmd), diags=diags, funcs=funcs, vr=vr,
                raw=p.stderr[-4000:] if not diags else '', smt_ms=(js or {}).get('times-ms', {}).get('smt', {}).get('smt-run', 0),
                total_ms=(js or {}).get('times-ms', {}).get('total', 0))


def classify_diag(d):
    """-> 'verification' | 'resource' | 'warning' | 'note' | 'compile'.
    rustc / VIR front-end errors carry an error code or one of the front-end phrasings; everything Verus emits
    at error level once verification conditions are being checked is a refused obligation."""
    lvl = d.get('level')
    msg = d.get('message', '')
    if lvl in ('warning', 'note', 'help'):
        return 'warning'
    if msg.startswith('aborting due to'):
        return 'note'
    if any(k in msg for k in RESOURCE_ERRORS):
        return 'resource'
    if d.get('code'):
        return 'compile'
    if any(k in msg for k in VERIFICATION_ERRORS):
        return 'verification'
    return 'compile'


def classify_run(r):
    """Classify all diagnostics of one run using the run context: when Verus reached the verification phase
    (a non-empty `verified`/`errors` count exists and no VIR error was met) every error-level diagnostic is a refused obligation."""
    vr = r.get('vr') or {}
    # a front-end (parse / type) failure also prints a verification summary, but with verified == 0 and errors == 0
    reached = ('verified' in vr) and not vr.get('encountered-vir-error') and (vr.get('verified', 0) > 0 or vr.get('errors', 0) > 0)
    out = []
    for d in r['diags']:
        k = classify_diag(d)
        if k == 'compile' and reached and not d.get('code'):
            k = 'verification'
        out.append((k, d))
    return out


def primary_span(d):
    sp = [s for s in d.get('spans', []) if s.get('is_primary')] or d.get('spans', [])
    return sp[0] if sp else None


def fn_at_line(text_lines, line):
    """Find name of the fn enclosing generated-file line (1-based) by scanning backwards."""
    for k in range(min(line, len(text_lines)) - 1, -1, -1):
        m = re.match(r'\s*(?:pub(?:\([a-z]+\))?\s+)?(?:open\s+|closed\s+)?(?:proof\s+|spec\s+|exec\s+|const\s+|broadcast\s+)*fn\s+(\w+)', text_lines[k])
        if m:
            return m.group(1)
    return '?'

"""bx: bounded stand-in / fallback lane (DESIGN 1.5).  Runs the harness test modules under /verif/harness against a copy of the
real crates.  Results are BOUNDED evidence only: a failing case is a concrete failing input on the real code (a violation with
a replay); a pass proves nothing and is never counted as a discharged obligation."""
import fcntl
import hashlib
import os
import re
import subprocess
import time

VERIF = os.path.dirname(os.path.dirname(os.path.abspath(__file__)))
REPO = os.environ.get('VERIF_REPO', '/repo')
SCRATCH = os.environ.get('VERIF_BX_SRC', '/var/tmp/vx-bx-src')
TARGET = os.path.join(VERIF, '.cache', 'bx-target')
CRATES = {'plonky2': ('plonky2', 'plonky2'), 'field': ('field', 'plonky2_field'), 'util': ('util', 'plonky2_util'), 'starky': ('starky', 'starky')}
MOD_LINE = '\n#[cfg(test)]\nmod vx_harness;\n'
# SIMD build variants of a crate ('field@avx2'): same sources, same harness, other target features, own target directory
VARIANTS = {'avx2': ('-C target-feature=+avx2', ['avx2']),
            'avx512': ('-C target-feature=+avx2,+avx512f,+avx512bw,+avx512cd,+avx512dq,+avx512vl', ['avx2', 'avx512f', 'avx512bw', 'avx512cd', 'avx512dq', 'avx512vl'])}
# run-time variants ('plonky2@threads3'): the SAME test binary under another environment (size of the rayon pool the parallel tree construction runs in)
ENV_VARIANTS = {'threads1': {'RAYON_NUM_THREADS': '1'}, 'threads3': {'RAYON_NUM_THREADS': '3'}, 'threads5': {'RAYON_NUM_THREADS': '5'}, 'threads6': {'RAYON_NUM_THREADS': '6'}}


def _write_if_changed(path, text):
    try:
        if open(path).read() == text:
            return
    except OSError:
        pass
    open(path, 'w').write(text)


def prepare(target=None):
    target = target or TARGET
    os.makedirs(SCRATCH, exist_ok=True)
    excl = ['--exclude', 'target', '--exclude', '.git']
    for d, _ in CRATES.values():
        excl += ['--exclude', '/%s/src/lib.rs' % d, '--exclude', '/%s/src/vx_harness.rs' % d]
    subprocess.run(['rsync', '-a', '--delete'] + excl + [REPO + '/', SCRATCH + '/'], check=True)
    for key, (d, _) in CRATES.items():
        lib = open(os.path.join(REPO, d, 'src', 'lib.rs')).read()
        h = os.path.join(VERIF, 'harness', key, 'vx_harness.rs')
        if os.path.exists(h):
            _write_if_changed(os.path.join(SCRATCH, d, 'src', 'vx_harness.rs'), open(h).read())
            _write_if_changed(os.path.join(SCRATCH, d, 'src', 'lib.rs'), lib + MOD_LINE)
        else:
            _write_if_changed(os.path.join(SCRATCH, d, 'src', 'lib.rs'), lib)
    _force_rebuild_of_changed_crates(target)


def _tree_hash(root, extra):
    h = hashlib.sha256()
    files = list(extra)
    for dp, dn, fn in os.walk(root):
        dn[:] = sorted(x for x in dn if x != 'target')
        files += [os.path.join(dp, f) for f in sorted(fn)]
    for f in files:
        try:
            h.update(os.path.relpath(f, SCRATCH).encode() + b'\0' + open(f, 'rb').read() + b'\0')
        except OSError:
            pass
    return h.hexdigest()


def _force_rebuild_of_changed_crates(TARGET):
    """cargo decides freshness by mtime.  A tree that goes back to an OLDER state (a reverted change whose files carry their old mtimes)
    would otherwise be tested with the stale binary of the newer state.  The content hash of every workspace member is compared with the one
    recorded at the last run; on any difference the member's lib.rs is touched so that cargo rebuilds it (and its dependents)."""
    os.makedirs(TARGET, exist_ok=True)
    top = [os.path.join(SCRATCH, f) for f in ('Cargo.toml', 'Cargo.lock', 'rust-toolchain') if os.path.exists(os.path.join(SCRATCH, f))]
    for d in sorted(x for x in os.listdir(SCRATCH) if os.path.isfile(os.path.join(SCRATCH, x, 'Cargo.toml'))):
        cur = _tree_hash(os.path.join(SCRATCH, d), top)
        stamp = os.path.join(TARGET, 'vx-srchash-' + d)
        try:
            old = open(stamp).read().strip()
        except OSError:
            old = ''
        if old != cur:
            for cand in ('src/lib.rs', 'src/main.rs', 'Cargo.toml'):
                f = os.path.join(SCRATCH, d, cand)
                if os.path.exists(f):
                    os.utime(f, None)
                    break
            open(stamp, 'w').write(cur)


def run(crate_key, prefixes, timeout=3000):
    """-> list of dict(test, status ok|failed|harness-error, cases, failures=[...], wall)"""
    crate_key, _, variant = crate_key.partition('@')
    d, pkg = CRATES[crate_key]
    target, rustflags, extra_env = TARGET, None, {}
    if variant in ENV_VARIANTS:
        extra_env = ENV_VARIANTS[variant]
    elif variant:
        rustflags, need = VARIANTS[variant]
        target = TARGET + '-' + variant
        try:
            have = set(re.search(r'^flags\s*:(.*)$', open('/proc/cpuinfo').read(), re.M).group(1).split())
        except (OSError, AttributeError):
            have = set()
        if not set(need) <= have:
            return [dict(test='*', status='skipped', cases=0, failures=[], note='this CPU lacks %s: the %s build variant cannot be executed here' % (sorted(set(need) - have), variant), wall=0.0)]
    hfile = os.path.join(VERIF, 'harness', crate_key, 'vx_harness.rs')
    if not os.path.exists(hfile):
        return []
    names = re.findall(r'#\[test\]\s*fn (\w+)\(\)', open(hfile).read())
    if not any(n.startswith(p_) for n in names for p_ in prefixes):
        return []
    os.makedirs(os.path.dirname(TARGET), exist_ok=True)
    lock = open('/var/tmp/vx-bx.lock', 'w')
    fcntl.flock(lock, fcntl.LOCK_EX)
    t0 = time.time()
    try:
        prepare(target)
        env = dict(os.environ, CARGO_NET_OFFLINE='true', CARGO_TARGET_DIR=target, RUST_BACKTRACE='0',
                   VERIF_SEED=os.environ.get('VERIF_SEED', '0') or '0')
        if rustflags:
            env['RUSTFLAGS'] = rustflags
        env.update(extra_env)
        results = []
        filt = ['vx_harness::' + p for p in prefixes]
        feats = []
        try:
            # hooks of /repo (MANIFEST.hooks): built in when the crate declares the guard feature
            if re.search(r'^verif_hooks\s*=', open(os.path.join(SCRATCH, d, 'Cargo.toml')).read(), re.M):
                feats = ['--features', 'verif_hooks']
        except OSError:
            pass
        cmd = ['cargo', 'test', '--offline', '-p', pkg, '--lib'] + feats + filt[:1] + ['--', '--nocapture', '--test-threads', '8'] + filt[1:]
        p = subprocess.run(cmd, cwd=SCRATCH, env=env, capture_output=True, text=True, timeout=timeout)
        out = p.stdout + '\n' + p.stderr
        if 'could not compile' in out or re.search(r'^error(\[E\d+\])?:', out, re.M) and 'test failed' not in out:
            errs = re.findall(r'^error.*(?:\n\s+-->.*)?', out, re.M)[:3]
            return [dict(test='*', status='harness-error', cases=0, failures=[], note='harness does not compile against this tree: ' + ' | '.join(errs), wall=time.time() - t0)]
        tests = {}
        for m in re.finditer(r'^test vx_harness::(\w+) \.\.\. (ok|FAILED)', out, re.M):
            tests[m.group(1)] = dict(test=m.group(1), status='ok' if m.group(2) == 'ok' else 'failed', cases=0, failures=[])
        for m in re.finditer(r'^vx_harness (\w+): (\d+) cases, (\d+) failures', out, re.M):
            tests.setdefault(m.group(1), dict(test=m.group(1), status='ok', cases=0, failures=[]))['cases'] = int(m.group(2))
        for m in re.finditer(r'^VXFAIL (\w+): (.*)$', out, re.M):
            tests.setdefault(m.group(1), dict(test=m.group(1), status='failed', cases=0, failures=[]))['failures'].append(m.group(2))
        mab = re.search(r"(memory allocation of \d+ bytes failed|process didn't exit successfully[^\n]*\(signal: \d+[^\n]*\)|has overflowed its stack|SIGSEGV|SIGABRT)", out)
        if mab:
            # the test process died: every harness test that was selected but has no result line is charged with the abort
            started = set(re.findall(r'^vx_harness (\w+):', out, re.M)) | set(tests)
            listed = set(re.findall(r'fn (\w+)\(\)', open(os.path.join(VERIF, 'harness', crate_key, 'vx_harness.rs')).read()))
            cand = [n for n in listed if any(n.startswith(p_) for p_ in prefixes) and (n not in tests)]
            for n in cand:
                tests[n] = dict(test=n, status='failed', cases=0, failures=['test process aborted while this bounded check was running: ' + mab.group(1)])
        for name, t in tests.items():
            if t['status'] == 'failed' and not t['failures']:
                mm = re.search(r"thread 'vx_harness::%s'[^\n]*panicked at ([^\n]*)\n([^\n]*)" % name, out)
                t['failures'].append('harness test aborted: ' + (mm.group(1) + ' ' + mm.group(2) if mm else 'no VXFAIL line'))
            t['wall'] = time.time() - t0
            results.append(t)
        if not results:
            return [dict(test='*', status='harness-error', cases=0, failures=[], note='no harness test ran: ' + out[-400:], wall=time.time() - t0)]
        return results
    except subprocess.TimeoutExpired:
        return [dict(test='*', status='harness-error', cases=0, failures=[], note='timeout', wall=time.time() - t0)]
    finally:
        fcntl.flock(lock, fcntl.LOCK_UN)
        lock.close()

"""Replay lane (DESIGN 1.3): try to turn a refused obligation into a failing input on the real code."""
import json
import os
import re
import shutil
import subprocess
import tempfile
import time

VERIF = os.path.dirname(os.path.dirname(os.path.abspath(__file__)))
REPO = os.environ.get('VERIF_REPO', '/repo')
CRATES = {'field': 'plonky2_field', 'util': 'plonky2_util', 'plonky2': 'plonky2', 'starky': 'starky', 'maybe_rayon': 'plonky2_maybe_rayon'}

HELPERS = r'''
    #[allow(dead_code)]
    pub fn vx_lattice_u64() -> Vec<u64> {
        let p: u64 = 0xFFFF_FFFF_0000_0001;
        let mut v = vec![0u64, 1, 2, 0xFFFF_FFFE, 0xFFFF_FFFF, 0x1_0000_0000, 0x1_0000_0001, 1 << 63, (1 << 63) - 1,
            p - 2, p - 1, p, p + 1, p + 2, p + 0xFFFF_FFFD, u64::MAX - 1, u64::MAX, 0xFFFF_FFFF_0000_0000, 0xFFFF_FFFE_FFFF_FFFF,
            0x0000_0001_0000_0000u64.wrapping_neg(), 0x8000_0000_0000_0001, 0x7FFF_FFFF_8000_0000];
        let mut s: u64 = 0x9E37_79B9_7F4A_7C15 ^ (VX_SEED);
        for _ in 0..24 { s ^= s << 13; s ^= s >> 7; s ^= s << 17; v.push(s); }
        v
    }
    #[allow(dead_code)]
    pub fn vx_mod_p(x: u128) -> u128 { x % 0xFFFF_FFFF_0000_0001u128 }
'''


def _fmt_obligation(o):
    return ('property: %s\nobligation: %s::%s::%s\nfunction (verified text): %s\nstatement: %s\nrepo location: %s\n\nverifier output:\n%s\n'
            % (o.get('property'), o['vspec'], o['unit'], o['kind'], o['fn'], o['statement'], o.get('repo'), o.get('rendered', '')))


def _run_snippet(unit_file, uid, snippet, seed):
    """Append a test module to a scratch copy of the real file and run it. -> (found, output, module_text)"""
    top = unit_file.split('/')[0]
    crate = CRATES.get(top)
    if crate is None:
        return None, 'no crate mapping for ' + unit_file, ''
    scratch = tempfile.mkdtemp(prefix='vx-replay-', dir=os.environ.get('VERIF_SCRATCH', '/var/tmp'))
    try:
        subprocess.run(['rsync', '-a', '--exclude', 'target', '--exclude', '.git', REPO + '/', scratch + '/'], check=True)
        mod = ('\n#[cfg(test)]\nmod vx_replay_%s {\n    #![allow(unused_imports)]\n    use super::*;\n    const VX_SEED: u64 = %d;\n%s\n    #[test]\n    fn replay() {\n%s\n    }\n}\n'
               % (uid, seed, HELPERS, '\n'.join('        ' + l for l in snippet)))
        with open(os.path.join(scratch, unit_file), 'a') as f:
            f.write(mod)
        env = dict(os.environ, CARGO_NET_OFFLINE='true', CARGO_TARGET_DIR=os.path.join(VERIF, '.cache', 'replay-target'))
        p = subprocess.run(['cargo', 'test', '--offline', '-p', crate, '--lib', 'vx_replay_%s::replay' % uid, '--', '--nocapture'],
                           cwd=scratch, env=env, capture_output=True, text=True, timeout=1800)
        full = p.stdout + '\n' + p.stderr
        if 'error[' in full or 'error: could not compile' in full:
            return None, full[-6000:], mod
        found = p.returncode != 0 and 'panicked' in full
        # a panic raised by the harness module itself that is not one of its own assertions is a harness error
        n_orig = open(os.path.join(REPO, unit_file)).read().count('\n') + 1
        for m in re.finditer(r'panicked at ([^:\s]+):(\d+):\d+:\n([^\n]*)', full):
            if m.group(1).endswith(unit_file) and int(m.group(2)) > n_orig and not (
                    m.group(3).startswith('assertion') or 'replay' in m.group(3) or 'verify accepted' in m.group(3)):
                return None, 'replay harness error (panic inside the harness module): ' + m.group(0), mod
        ls = full.split('\n')
        pan = []
        for k, l in enumerate(ls):
            if 'panicked at' in l:
                pan.extend(ls[k:k + 4])
        out = '\n'.join(pan) + '\n' + '\n'.join(l for l in p.stdout.split('\n') if l.startswith('test ') or 'test result' in l)
        return found, out, mod
    except Exception as e:  # noqa
        return None, 'replay harness error: %r' % (e,), ''
    finally:
        shutil.rmtree(scratch, ignore_errors=True)


def crosscheck_oracles(runs):
    """Thorough tier: run every replay oracle against the unchanged real code; all must pass.
    Returns list of dicts(unit, status, note).  A failing oracle on a tree whose proof passes is a framework error."""
    seed = int(os.environ.get('VERIF_SEED', '0') or 0)
    by_file = {}
    for r in runs:
        for uid, u in r.units.items():
            for n_, (pat, lines) in enumerate(u.get('replay') or []):
                by_file.setdefault(u['file'], []).append((re.sub(r'\W+', '_', uid) + ('_%d' % n_ if n_ else ''), lines))
    results = []
    if not by_file:
        return results
    scratch = tempfile.mkdtemp(prefix='vx-oracle-', dir=os.environ.get('VERIF_SCRATCH', '/var/tmp'))
    try:
        subprocess.run(['rsync', '-a', '--exclude', 'target', '--exclude', '.git', REPO + '/', scratch + '/'], check=True)
        crates = set()
        for f, items in by_file.items():
            crates.add(CRATES[f.split('/')[0]])
            with open(os.path.join(scratch, f), 'a') as fh:
                for uid, snippet in items:
                    fh.write('\n#[cfg(test)]\nmod vx_replay_%s {\n    #![allow(unused_imports)]\n    use super::*;\n    const VX_SEED: u64 = %d;\n%s\n    #[test]\n    fn replay() {\n%s\n    }\n}\n'
                             % (uid, seed, HELPERS, '\n'.join('        ' + l for l in snippet)))
        env = dict(os.environ, CARGO_NET_OFFLINE='true', CARGO_TARGET_DIR=os.path.join(VERIF, '.cache', 'replay-target'))
        for crate in sorted(crates):
            p = subprocess.run(['cargo', 'test', '--offline', '-p', crate, '--lib', 'vx_replay_'], cwd=scratch, env=env,
                               capture_output=True, text=True, timeout=3000)
            full = p.stdout + '\n' + p.stderr
            if 'error[' in full or 'could not compile' in full:
                results.append(dict(unit=crate, status='harness-error', note=full[-1500:]))
                continue
            for m in re.finditer(r'test (\S*)vx_replay_(\w+)::replay \.\.\. (\w+)', p.stdout):
                results.append(dict(unit=m.group(2), status=m.group(3), note=''))
    except Exception as e:  # noqa
        results.append(dict(unit='*', status='harness-error', note=repr(e)))
    finally:
        shutil.rmtree(scratch, ignore_errors=True)
    return results


def make_replay(pid, n, o, runs):
    """Write the replay file for one violation; returns (path, failing_input_found)."""
    os.makedirs(os.path.join(VERIF, 'replay'), exist_ok=True)
    seed = int(os.environ.get('VERIF_SEED', '0') or 0)
    base = '%s-%s-%s-%d' % (pid, o['vspec'], re.sub(r'\W+', '_', str(o['unit'])), n)
    text = _fmt_obligation(o)
    found = False
    if o.get('kani') and o['kani'].get('concrete'):
        found = True
        text += '\nKani concrete playback values (counterexample on the compiled real function):\n' + o['kani']['concrete'] + '\n'
    snippet, unit_file = None, None
    for r in runs:
        if r.name == o['vspec'] and o['unit'] in r.units and r.units[o['unit']].get('replay'):
            for pat, lines in r.units[o['unit']]['replay']:
                if not pat or re.search(pat, o['kind'] + ' ' + o['statement']):
                    snippet = lines
                    unit_file = r.units[o['unit']]['file']
                    break
    path = os.path.join(VERIF, 'replay', base + ('.rs' if snippet else '.txt'))
    if snippet and not os.environ.get('VERIF_NO_REPLAY'):
        t0 = time.time()
        res, out, mod = _run_snippet(unit_file, re.sub(r'\W+', '_', o['unit']), snippet, seed)
        hdr = '/* replay of a refused obligation: directed search (boundary lattice + seeded values) of the REAL function against an\n   executable oracle; appended as a test module to a scratch copy of %s and run with cargo test.\n%s\nsearch result: %s (%.0fs)\n%s\n*/\n' % (
            unit_file, text.replace('*/', '* /'), {True: 'FAILING INPUT FOUND', False: 'no failing input found', None: 'replay harness could not run'}[res],
            time.time() - t0, out.replace('*/', '* /'))
        open(path, 'w').write(hdr + '// VX-REPLAY-FILE %s\n' % json.dumps(dict(file=unit_file, uid=re.sub(r'\W+', '_', o['unit']), seed=seed)) + mod)
        found = found or bool(res)
    else:
        open(path, 'w').write(text + ('\nno executable replay harness is attached to this unit; no-failing-input-found\n' if not found else ''))
    return path, found


def rerun_replay(path):
    s = open(path).read()
    m = re.search(r'// VX-REPLAY-FILE (\{.*\})', s)
    if not m:
        print(s)
        print('replay file carries the verifier output only (no executable harness)')
        return 0
    meta = json.loads(m.group(1))
    body = s[m.end():]
    mm = re.search(r'fn replay\(\) \{\n(.*)\n    \}\n\}\n\s*$', body, re.S)
    snippet = [l[8:] if l.startswith('        ') else l for l in mm.group(1).split('\n')]
    res, out, _ = _run_snippet(meta['file'], meta['uid'], snippet, meta['seed'])
    print(out)
    print('replay:', {True: 'FAILS on the current tree (violation reproduced)', False: 'passes on the current tree', None: 'could not run'}[res])
    return 1 if res else 0

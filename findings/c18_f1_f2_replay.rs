use plonky2::field::goldilocks_field::GoldilocksField;
use plonky2::field::types::Field;
use plonky2::fri::reduction_strategies::FriReductionStrategy;
use plonky2::iop::witness::{PartialWitness, WitnessWrite};
use plonky2::plonk::circuit_builder::CircuitBuilder;
use plonky2::plonk::circuit_data::{CircuitConfig, CircuitData};
use plonky2::plonk::config::{GenericConfig, PoseidonGoldilocksConfig};
use plonky2::plonk::proof::ProofWithPublicInputs;

const D: usize = 2;
type C = PoseidonGoldilocksConfig;
type F = <C as GenericConfig<D>>::F;

fn build(config: CircuitConfig) -> (CircuitData<F, C, D>, ProofWithPublicInputs<F, C, D>) {
    let mut builder = CircuitBuilder::<F, D>::new(config);
    let x = builder.add_virtual_target();
    let mut cur = x;
    for _ in 0..40 {
        cur = builder.mul(cur, x);
        cur = builder.add(cur, x);
    }
    builder.register_public_input(x);
    builder.register_public_input(cur);
    let mut pw = PartialWitness::new();
    pw.set_target(x, F::from_canonical_u64(3)).unwrap();
    let data = builder.build::<C>();
    let proof = data.prove(pw).unwrap();
    data.verify(proof.clone()).unwrap();
    (data, proof)
}

#[test]
fn f1_cap_len_not_pow2() {
    let (data, mut proof) = build(CircuitConfig::standard_recursion_config());
    let h = proof.proof.wires_cap.0[0];
    proof.proof.wires_cap.0.push(h);
    let r = std::panic::catch_unwind(std::panic::AssertUnwindSafe(|| data.verify(proof)));
    match r {
        Ok(res) => println!("F1: no panic, result is_err={}", res.is_err()),
        Err(_) => println!("F1: PANIC in verify"),
    }
}

#[test]
fn f2_missing_commit_phase_caps() {
    let mut config = CircuitConfig::standard_recursion_config();
    config.security_bits = 3;
    config.fri_config.proof_of_work_bits = 0;
    config.fri_config.num_query_rounds = 1;
    config.fri_config.reduction_strategy = FriReductionStrategy::Fixed(vec![1, 1]);
    let (data, proof) = build(config);
    println!("degree_bits={} arities={:?}", data.common.degree_bits(), data.common.fri_params.reduction_arity_bits);
    let pih = proof.get_public_inputs_hash();
    let orig = proof.get_challenges(pih, &data.verifier_only.circuit_digest, &data.common).unwrap();
    let orig_idx = orig.fri_challenges.fri_query_indices.clone();
    let mut bad = proof.clone();
    bad.proof.opening_proof.commit_phase_merkle_caps.clear();
    let mut found = false;
    for w in 0..200000u64 {
        bad.proof.opening_proof.pow_witness = F::from_canonical_u64(w);
        let ch = bad.get_challenges(pih, &data.verifier_only.circuit_digest, &data.common).unwrap();
        if ch.fri_challenges.fri_query_indices == orig_idx {
            found = true;
            println!("F2: ground pow_witness={} fri_betas.len()={}", w, ch.fri_challenges.fri_betas.len());
            break;
        }
    }
    assert!(found, "grinding failed");
    let r = std::panic::catch_unwind(std::panic::AssertUnwindSafe(|| data.verify(bad)));
    match r {
        Ok(res) => println!("F2: no panic, result is_err={} {:?}", res.is_err(), res.err().map(|e| e.to_string())),
        Err(_) => println!("F2: PANIC in verify"),
    }
}

// Test body appended (scratch copy only) to the `tests` module of starky/src/fibonacci_stark.rs,
// which owns the test-only FibonacciStark; run with `cargo test -p starky --lib verif_f3 -- --nocapture`.
    #[test]
    fn verif_f3_empty_query_rounds() {
        let config = StarkConfig::standard_fast_config();
        let num_rows = 1 << 5;
        let public_inputs = [F::ZERO, F::ONE, fibonacci(num_rows - 1, F::ZERO, F::ONE)];
        let stark = S::new(num_rows);
        let trace = stark.generate_trace(public_inputs[0], public_inputs[1]);
        let mut proof = prove::<F, C, S, D>(stark, &config, trace, &public_inputs, None, &mut TimingTree::default()).unwrap();
        proof.proof.opening_proof.query_round_proofs.clear();
        let r = std::panic::catch_unwind(std::panic::AssertUnwindSafe(|| verify_stark_proof(stark, proof, &config, None)));
        match r {
            Ok(res) => println!("F3: no panic, is_err={}", res.is_err()),
            Err(_) => println!("F3: PANIC in verify_stark_proof"),
        }
    }


    #[test]
    fn probe_or_dummy_cap_height_mismatch() -> Result<()> {
        const D: usize = 2;
        type C = PoseidonGoldilocksConfig;
        type F = <C as GenericConfig<D>>::F;
        let outer_config = CircuitConfig::standard_recursion_config();
        let mut inner_config = CircuitConfig::standard_recursion_config();
        inner_config.fri_config.cap_height = 3;

        let mut builder = CircuitBuilder::<F, D>::new(inner_config);
        let mut pw = PartialWitness::new();
        let t = builder.add_virtual_target();
        pw.set_target(t, F::rand())?;
        builder.register_public_input(t);
        let _t2 = builder.square(t);
        for _ in 0..64 {
            builder.add_gate(NoopGate, vec![]);
        }
        let inner = builder.build::<C>();
        let inner_proof = inner.prove(pw)?;
        inner.verify(inner_proof.clone())?;
        let dummy_data = dummy_circuit::<F, C, D>(&inner.common);
        let dummy_pf = dummy_proof(&dummy_data, HashMap::new())?;

        // Explicit two-proof variant: works with a differing inner cap height.
        {
            let mut builder = CircuitBuilder::<F, D>::new(outer_config.clone());
            let mut pw = PartialWitness::new();
            let pt = builder.add_virtual_proof_with_pis(&inner.common);
            pw.set_proof_with_pis_target(&pt, &inner_proof)?;
            let dpt = builder.add_virtual_proof_with_pis(&inner.common);
            pw.set_proof_with_pis_target::<C, D>(&dpt, &dummy_pf)?;
            let vk = builder.add_virtual_verifier_data(inner.common.config.fri_config.cap_height);
            pw.set_verifier_data_target(&vk, &inner.verifier_only)?;
            let dvk = builder.add_virtual_verifier_data(inner.common.config.fri_config.cap_height);
            pw.set_verifier_data_target(&dvk, &dummy_data.verifier_only)?;
            let cond = builder.add_virtual_bool_target_safe();
            pw.set_bool_target(cond, false)?;
            builder.conditionally_verify_proof::<C>(cond, &pt, &vk, &dpt, &dvk, &inner.common);
            let outer = builder.build::<C>();
            let proof = outer.prove(pw)?;
            outer.verify(proof)?;
        }

        // `_or_dummy` variant.
        let mut builder = CircuitBuilder::<F, D>::new(outer_config);
        let mut pw = PartialWitness::new();
        let pt = builder.add_virtual_proof_with_pis(&inner.common);
        pw.set_proof_with_pis_target(&pt, &inner_proof)?;
        let vk = builder.add_virtual_verifier_data(inner.common.config.fri_config.cap_height);
        pw.set_verifier_data_target(&vk, &inner.verifier_only)?;
        let cond = builder.add_virtual_bool_target_safe();
        pw.set_bool_target(cond, true)?;
        builder.conditionally_verify_proof_or_dummy::<C>(cond, &pt, &vk, &inner.common)?;
        let outer = builder.build::<C>();
        let proof = outer.prove(pw)?;
        outer.verify(proof)
    }

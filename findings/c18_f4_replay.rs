use plonky2::field::goldilocks_field::GoldilocksField;
use plonky2::util::serialization::{Buffer, Read};
#[test]
fn f4_read_field_noncanonical() {
    let bytes = [0xffu8; 8];
    let r = std::panic::catch_unwind(|| { let mut b = Buffer::new(&bytes); b.read_field::<GoldilocksField>().map(|x| x.0) });
    match r { Ok(v) => println!("F4: no panic, value={:?}", v), Err(_) => println!("F4: PANIC in read_field") }
}

//! C09: NOT a seeded defect -- this test FAILS on the unmodified worktree HEAD (bd305e9).
//! The proof omits `quotient_polys_cap` (validate_proof_shape allows `None`), so `zeta` is squeezed
//! before any quotient commitment and the FRI verifier (zip over caps) never authenticates the
//! quotient oracle leaves.
//!
//! Placement: save this file as `starky/src/c09_demo0.rs` and add
//! `#[cfg(test)] mod c09_demo0;` to `starky/src/lib.rs`.
//! Run with `cargo test --offline -p starky --lib c09_demo0`.
//!
//! A cheating prover tries to obtain an accepted proof for a FALSE statement (a Fibonacci trace
//! whose last row does not match the claimed public result).  Its strategy only works if it can
//! learn the out-of-domain point `zeta` before it has to commit to the quotient polynomials: it
//! then commits to `t_j(X) = a_j + b_j X` chosen such that
//! `t_j(zeta) = vanishing_j(zeta) / Z_H(zeta)`.
//! With a sound Fiat-Shamir transcript (quotient cap absorbed before `zeta` is squeezed) the
//! point it guessed is useless and the verifier rejects.

use core::iter::successors;

use plonky2::field::extension::{Extendable, FieldExtension};
use plonky2::field::packed::PackedField;
use plonky2::field::polynomial::{PolynomialCoeffs, PolynomialValues};
use plonky2::field::types::Field;
use plonky2::fri::oracle::PolynomialBatch;
use plonky2::iop::challenger::Challenger;
use plonky2::iop::ext_target::ExtensionTarget;
use plonky2::plonk::circuit_builder::CircuitBuilder;
use plonky2::plonk::config::{GenericConfig, PoseidonGoldilocksConfig};
use plonky2::util::timing::TimingTree;
use plonky2::util::{log2_ceil, log2_strict};

use crate::config::StarkConfig;
use crate::constraint_consumer::{ConstraintConsumer, RecursiveConstraintConsumer};
use crate::evaluation_frame::{StarkEvaluationFrame, StarkFrame};
use crate::proof::{StarkOpeningSet, StarkProof, StarkProofWithPublicInputs};
use crate::prover::prove;
use crate::stark::Stark;
use crate::util::trace_rows_to_poly_values;
use crate::vanishing_poly::{compute_eval_vanishing_poly, eval_l_0_and_l_last, eval_vanishing_poly};
use crate::verifier::verify_stark_proof;

const D: usize = 2;
type C = PoseidonGoldilocksConfig;
type F = <C as GenericConfig<D>>::F;
type FE = <F as Extendable<D>>::Extension;
type H = <C as GenericConfig<D>>::Hasher;

/// Fibonacci STARK: columns `[x0, x1]`, public inputs `[x0(0), x1(0), x1(last)]`.
#[derive(Copy, Clone)]
struct Fib;

const COLS: usize = 2;
const PIS: usize = 3;

impl Stark<F, D> for Fib {
    type EvaluationFrame<FE2, P, const D2: usize>
        = StarkFrame<P, P::Scalar, COLS, PIS>
    where
        FE2: FieldExtension<D2, BaseField = F>,
        P: PackedField<Scalar = FE2>;
    type EvaluationFrameTarget = StarkFrame<ExtensionTarget<D>, ExtensionTarget<D>, COLS, PIS>;

    fn eval_packed_generic<FE2, P, const D2: usize>(
        &self,
        vars: &Self::EvaluationFrame<FE2, P, D2>,
        yield_constr: &mut ConstraintConsumer<P>,
    ) where
        FE2: FieldExtension<D2, BaseField = F>,
        P: PackedField<Scalar = FE2>,
    {
        let lv = vars.get_local_values();
        let nv = vars.get_next_values();
        let pi = vars.get_public_inputs();
        yield_constr.constraint_first_row(lv[0] - pi[0]);
        yield_constr.constraint_first_row(lv[1] - pi[1]);
        yield_constr.constraint_last_row(lv[1] - pi[2]);
        yield_constr.constraint_transition(nv[0] - lv[1]);
        yield_constr.constraint_transition(nv[1] - lv[0] - lv[1]);
    }

    fn eval_ext_circuit(
        &self,
        _builder: &mut CircuitBuilder<F, D>,
        _vars: &Self::EvaluationFrameTarget,
        _yield_constr: &mut RecursiveConstraintConsumer<F, D>,
    ) {
        unimplemented!("not needed for the native demo")
    }

    fn constraint_degree(&self) -> usize {
        2
    }
}

fn fib_trace(n: usize, x0: F, x1: F) -> (Vec<PolynomialValues<F>>, F) {
    let rows = (0..n)
        .scan([x0, x1], |acc, _| {
            let tmp = *acc;
            acc[0] = tmp[1];
            acc[1] = tmp[0] + tmp[1];
            Some(tmp)
        })
        .collect::<Vec<_>>();
    let res = rows[n - 1][1];
    (trace_rows_to_poly_values(rows), res)
}

fn ext(x: F) -> FE {
    <FE as FieldExtension<D>>::from_basefield(x)
}

fn ext_parts(x: FE) -> [F; D] {
    <FE as FieldExtension<D>>::to_basefield_array(&x)
}

/// Cheating prover. It never looks at whether the trace satisfies the constraints.
fn cheating_prove(
    stark: &Fib,
    config: &StarkConfig,
    trace: Vec<PolynomialValues<F>>,
    public_inputs: &[F],
) -> StarkProofWithPublicInputs<F, C, D> {
    let mut timing = TimingTree::default();
    let degree = trace[0].len();
    let degree_bits = log2_strict(degree);
    let fri_params = config.fri_params(degree_bits);
    let rate_bits = config.fri_config.rate_bits;
    let cap_height = config.fri_config.cap_height;
    let nc = config.num_challenges;
    let g = F::primitive_root_of_unity(degree_bits);

    let trace_commitment =
        PolynomialBatch::<F, C, D>::from_values(trace, rate_bits, false, cap_height, &mut timing, None);

    // --- Fiat-Shamir transcript up to the constraint-combination challenges. ---
    let mut challenger = Challenger::<F, H>::new();
    challenger.observe_elements(public_inputs);
    config.observe(&mut challenger);
    challenger.observe_cap(&trace_commitment.merkle_tree.cap);

    let alphas_prime = challenger.get_n_challenges(nc);
    let pow_degree = core::cmp::max(2, stark.constraint_degree() + 1);
    let num_extension_powers = core::cmp::max(1, 50 / log2_ceil(pow_degree) - 1);
    let total = COLS * 2;
    let simulating_zetas =
        challenger.get_n_extension_challenges::<D>(total.div_ceil(num_extension_powers));
    let per_zeta = core::cmp::min(num_extension_powers + 1, total);
    let dummy = simulating_zetas
        .iter()
        .flat_map(|&z| {
            successors(Some(z), move |prev: &FE| Some(prev.exp_u64(pow_degree as u64)))
                .take(per_zeta)
        })
        .collect::<Vec<FE>>();
    let dummy_openings = StarkOpeningSet::<F, D> {
        local_values: dummy[..COLS].to_vec(),
        next_values: dummy[COLS..2 * COLS].to_vec(),
        auxiliary_polys: None,
        auxiliary_polys_next: None,
        ctl_zs_first: None,
        quotient_polys: None,
    };
    let zeta_prime = challenger.get_extension_challenge::<D>();
    let bound = compute_eval_vanishing_poly::<F, Fib, D>(
        stark,
        &dummy_openings,
        None,
        None,
        &[],
        public_inputs,
        alphas_prime,
        zeta_prime,
        degree_bits,
        0,
    );
    challenger.observe_extension_elements::<D>(&bound);
    let alphas = challenger.get_n_challenges(nc);

    // --- The cheat: squeeze the next challenge and bet that it is the opening point. ---
    let zeta = challenger.get_extension_challenge::<D>();

    // Evaluate the (non-vanishing) constraint combination at zeta.
    let trace_openings =
        StarkOpeningSet::<F, D>::new::<C>(zeta, g, &trace_commitment, None, None, 0, false, &[]);
    let (l_0, l_last) = eval_l_0_and_l_last(degree_bits, zeta);
    let z_last = zeta - ext(g.inverse());
    let mut consumer = ConstraintConsumer::<FE>::new(
        alphas.iter().map(|&a| ext(a)).collect(),
        z_last,
        l_0,
        l_last,
    );
    let pis_ext = public_inputs
        .iter()
        .map(|&x| ext(x))
        .collect::<Vec<_>>();
    let vars = <Fib as Stark<F, D>>::EvaluationFrame::<FE, FE, D>::from_values(
        &trace_openings.local_values,
        &trace_openings.next_values,
        &pis_ext,
    );
    eval_vanishing_poly::<F, FE, FE, Fib, D, D>(stark, &vars, &[], None, None, &mut consumer);
    let vanishing_zeta = consumer.accumulators();
    let z_h_zeta = zeta.exp_power_of_2(degree_bits) - FE::ONE;

    // Degree-one "quotients" over the base field hitting the required value at zeta.
    let [z0, z1] = ext_parts(zeta);
    let quotient_polys = vanishing_zeta
        .iter()
        .map(|&v| {
            let [c0, c1] = ext_parts(v / z_h_zeta);
            let b = c1 / z1;
            let a = c0 - b * z0;
            let mut coeffs = vec![F::ZERO; degree];
            coeffs[0] = a;
            coeffs[1] = b;
            PolynomialCoeffs::new(coeffs)
        })
        .collect::<Vec<_>>();
    let quotient_commitment = PolynomialBatch::<F, C, D>::from_coeffs(
        quotient_polys,
        rate_bits,
        false,
        cap_height,
        &mut timing,
        None,
    );
    let quotient_cap = quotient_commitment.merkle_tree.cap.clone();
    // The quotient cap is never sent, hence never absorbed by the verifier's transcript either.
    let _ = &quotient_cap;

    let openings = StarkOpeningSet::<F, D>::new::<C>(
        zeta,
        g,
        &trace_commitment,
        None,
        Some(&quotient_commitment),
        0,
        false,
        &[],
    );
    challenger.observe_openings(&openings.to_fri_openings());

    let opening_proof = PolynomialBatch::<F, C, D>::prove_openings(
        &stark.fri_instance(zeta, g, 0, vec![], config),
        &[&trace_commitment, &quotient_commitment],
        &mut challenger,
        &fri_params,
        None,
        None,
        &mut timing,
    );

    StarkProofWithPublicInputs {
        proof: StarkProof {
            trace_cap: trace_commitment.merkle_tree.cap.clone(),
            auxiliary_polys_cap: None,
            quotient_polys_cap: None,
            openings,
            opening_proof,
        },
        public_inputs: public_inputs.to_vec(),
    }
}

#[test]
fn c09_no_accepted_proof_for_a_false_statement() {
    let config = StarkConfig::standard_fast_config();
    let n = 1 << 5;
    let stark = Fib;

    // Sanity: the honest flow works.
    let (trace, res) = fib_trace(n, F::ZERO, F::ONE);
    let pis = [F::ZERO, F::ONE, res];
    let honest = prove::<F, C, Fib, D>(
        stark,
        &config,
        trace.clone(),
        &pis,
        None,
        &mut TimingTree::default(),
    )
    .expect("honest proving must succeed");
    verify_stark_proof(stark, honest, &config, None).expect("honest proof must verify");

    // False statement: the claimed result does not match the trace (last-row constraint violated),
    // and on top of that an interior cell is corrupted (transition constraint violated).
    let mut bad_trace = trace;
    bad_trace[0].values[n / 2] += F::from_canonical_u64(12345);
    let bad_pis = [F::ZERO, F::ONE, res + F::ONE];
    let forged = cheating_prove(&stark, &config, bad_trace, &bad_pis);
    let verdict = verify_stark_proof(stark, forged, &config, None);
    assert!(
        verdict.is_err(),
        "verifier ACCEPTED a proof for a trace violating the constraints and mismatching public inputs"
    );
}

#[cfg(test)]
mod c03_probe_preexisting {
    use anyhow::Result;

    use super::*;
    use crate::field::types::Field;
    use crate::gates::noop::NoopGate;
    use crate::iop::witness::{PartialWitness, WitnessWrite};
    use crate::plonk::circuit_builder::CircuitBuilder;
    use crate::plonk::circuit_data::CircuitConfig;
    use crate::plonk::config::PoseidonGoldilocksConfig;

    #[test]
    fn probe() -> Result<()> {
        const D: usize = 2;
        type C = PoseidonGoldilocksConfig;
        type F = <C as GenericConfig<D>>::F;

        let config = CircuitConfig::standard_recursion_config();
        let mut builder = CircuitBuilder::<F, D>::new(config);
        let x = builder.add_virtual_target();
        let mut cur = x;
        for _ in 0..50 {
            cur = builder.mul(cur, x);
        }
        builder.register_public_input(cur);
        for _ in 0..100 {
            builder.add_gate(NoopGate, vec![]);
        }
        let data = builder.build::<C>();
        let mut pw = PartialWitness::new();
        pw.set_target(x, F::from_canonical_u64(3))?;
        let proof = data.prove(pw)?;
        let compressed = data.compress(proof)?;
        data.verify_compressed(compressed.clone())?;

        // 1. duplicate the last sibling of a compressed initial-tree Merkle path
        let k = *compressed.proof.opening_proof.query_round_proofs.initial_trees_proofs.keys().next().unwrap();
        let mut m = compressed.clone();
        {
            let sibs = &mut m.proof.opening_proof.query_round_proofs.initial_trees_proofs.get_mut(&k).unwrap().evals_proofs[1].1.siblings;
            let last = *sibs.last().unwrap();
            sibs.push(last);
        }
        println!("PROBE 1 (duplicate last compressed sibling) accepted: {}", data.verify_compressed(m).is_ok());

        // 2. duplicate the last element of the `steps` list of the compressed proof
        let mut m = compressed.clone();
        {
            let steps = &mut m.proof.opening_proof.query_round_proofs.steps;
            let last = steps.last().unwrap().clone();
            steps.push(last);
        }
        println!("PROBE 2 (duplicate last per-layer step map) accepted: {}", data.verify_compressed(m).is_ok());

        // 3. extra map entry under an unused key
        let mut m = compressed.clone();
        {
            let map = &mut m.proof.opening_proof.query_round_proofs.initial_trees_proofs;
            let v = map[&k].clone();
            let mut unused = 0usize;
            while map.contains_key(&unused) { unused += 1; }
            map.insert(unused, v);
        }
        println!("PROBE 3 (extra initial_trees_proofs entry) accepted: {}", data.verify_compressed(m).is_ok());

        // 4. garbage in lookup_zs_next of a circuit without lookups
        let mut m = compressed.clone();
        m.proof.openings.lookup_zs_next.push(<F as Extendable<D>>::Extension::ONE);
        println!("PROBE 4 (garbage lookup_zs_next, no lookups, compressed) accepted: {}", data.verify_compressed(m).is_ok());

        // 5. move the boundary between two opening lists (compressed path has no opening-set shape check)
        let mut m = compressed.clone();
        let moved = m.proof.openings.partial_products.pop().unwrap();
        m.proof.openings.quotient_polys.insert(0, moved);
        let r = std::panic::catch_unwind(std::panic::AssertUnwindSafe(|| data.verify_compressed(m).is_ok()));
        println!("PROBE 5 (shift partial_products/quotient_polys boundary, compressed) accepted: {:?}", r);
        Ok(())
    }
}

use vstd::prelude::*;
verus! {

    const MDS_FREQ_BLOCK_ONE: [i64; 3] = [16, 32, 16];
    const MDS_FREQ_BLOCK_TWO: [(i64, i64); 3] = [(2, -1), (-4, 1), (16, 1)];
    const MDS_FREQ_BLOCK_THREE: [i64; 3] = [-1, -8, 2];

    /// Split 3 x 4 FFT-based MDS vector-multiplication with the Poseidon circulant MDS matrix.
    fn mds_multiply_freq(state: [u64; 12]) -> (r: [u64; 12])
    requires forall|i:int| 0<=i<12 ==> #[trigger] state[i] < 0x1_0000_0000,
    ensures
      r[0] == 17*state[0] + 15*state[1] + 41*state[2] + 16*state[3] + 2*state[4] + 28*state[5] + 13*state[6] + 13*state[7] + 39*state[8] + 18*state[9] + 34*state[10] + 20*state[11],
      r[1] == 17*state[1] + 15*state[2] + 41*state[3] + 16*state[4] + 2*state[5] + 28*state[6] + 13*state[7] + 13*state[8] + 39*state[9] + 18*state[10] + 34*state[11] + 20*state[0],
      r[11] == 17*state[11] + 15*state[0] + 41*state[1] + 16*state[2] + 2*state[3] + 28*state[4] + 13*state[5] + 13*state[6] + 39*state[7] + 18*state[8] + 34*state[9] + 20*state[10],
{
        let __t1 = state; let s0 = __t1[0]; let s1 = __t1[1]; let s2 = __t1[2]; let s3 = __t1[3]; let s4 = __t1[4]; let s5 = __t1[5]; let s6 = __t1[6]; let s7 = __t1[7]; let s8 = __t1[8]; let s9 = __t1[9]; let s10 = __t1[10]; let s11 = __t1[11];

        let (u0, u1, u2) = fft4_real([s0, s3, s6, s9]);
        let (u4, u5, u6) = fft4_real([s1, s4, s7, s10]);
        let (u8, u9, u10) = fft4_real([s2, s5, s8, s11]);

        // This where the multiplication in frequency domain is done. More precisely, and with
        // the appropriate permutations in between, the sequence of
        // 3-point FFTs --> multiplication by twiddle factors --> Hadamard multiplication -->
        // 3 point iFFTs --> multiplication by (inverse) twiddle factors
        // is "squashed" into one step composed of the functions "block1", "block2" and "block3".
        // The expressions in the aforementioned functions are the result of explicit computations
        // combined with the Karatsuba trick for the multiplication of complex numbers.

        let __t2 = block1([u0, u4, u8], MDS_FREQ_BLOCK_ONE); let v0 = __t2[0]; let v4 = __t2[1]; let v8 = __t2[2];
        let __t3 = block2([u1, u5, u9], MDS_FREQ_BLOCK_TWO); let v1 = __t3[0]; let v5 = __t3[1]; let v9 = __t3[2];
        let __t4 = block3([u2, u6, u10], MDS_FREQ_BLOCK_THREE); let v2 = __t4[0]; let v6 = __t4[1]; let v10 = __t4[2];
        // The 4th block is not computed as it is similar to the 2nd one, up to complex conjugation.

        let __t5 = ifft4_real_unreduced((v0, v1, v2)); let s0 = __t5[0]; let s3 = __t5[1]; let s6 = __t5[2]; let s9 = __t5[3];
        let __t6 = ifft4_real_unreduced((v4, v5, v6)); let s1 = __t6[0]; let s4 = __t6[1]; let s7 = __t6[2]; let s10 = __t6[3];
        let __t7 = ifft4_real_unreduced((v8, v9, v10)); let s2 = __t7[0]; let s5 = __t7[1]; let s8 = __t7[2]; let s11 = __t7[3];

        [s0, s1, s2, s3, s4, s5, s6, s7, s8, s9, s10, s11]
    }
    fn block1(x: [i64; 3], y: [i64; 3]) -> (r: [i64; 3])
    requires forall|i:int| 0<=i<3 ==> -0x4_0000_0000 <= #[trigger] x[i] <= 0x4_0000_0000,
             y[0] == 16, y[1] == 32, y[2] == 16,
    ensures r[0] == x[0]*y[0] + x[1]*y[2] + x[2]*y[1], r[1] == x[0]*y[1] + x[1]*y[0] + x[2]*y[2], r[2] == x[0]*y[2] + x[1]*y[1] + x[2]*y[0],
{
        let __t8 = x; let x0 = __t8[0]; let x1 = __t8[1]; let x2 = __t8[2];
        let __t9 = y; let y0 = __t9[0]; let y1 = __t9[1]; let y2 = __t9[2];
        let z0 = x0 * y0 + x1 * y2 + x2 * y1;
        let z1 = x0 * y1 + x1 * y0 + x2 * y2;
        let z2 = x0 * y2 + x1 * y1 + x2 * y0;

        [z0, z1, z2]
    }
    fn block2(x: [(i64, i64); 3], y: [(i64, i64); 3]) -> (r: [(i64, i64); 3])
    requires forall|i:int| 0<=i<3 ==> -0x4_0000_0000 <= (#[trigger] x[i]).0 <= 0x4_0000_0000 && -0x4_0000_0000 <= x[i].1 <= 0x4_0000_0000,
             y[0] == (2i64, -1i64), y[1] == (-4i64, 1i64), y[2] == (16i64, 1i64),
    ensures
      r[0].0 == (x[0].0*y[0].0 - x[0].1*y[0].1) + (x[1].0*y[2].1 + x[1].1*y[2].0) + (x[2].0*y[1].1 + x[2].1*y[1].0),
      r[0].1 == (x[0].0*y[0].1 + x[0].1*y[0].0) - (x[1].0*y[2].0 - x[1].1*y[2].1) - (x[2].0*y[1].0 - x[2].1*y[1].1),
      r[1].0 == (x[0].0*y[1].0 - x[0].1*y[1].1) + (x[1].0*y[0].0 - x[1].1*y[0].1) + (x[2].0*y[2].1 + x[2].1*y[2].0),
      r[1].1 == (x[0].0*y[1].1 + x[0].1*y[1].0) + (x[1].0*y[0].1 + x[1].1*y[0].0) - (x[2].0*y[2].0 - x[2].1*y[2].1),
      r[2].0 == (x[0].0*y[2].0 - x[0].1*y[2].1) + (x[1].0*y[1].0 - x[1].1*y[1].1) + (x[2].0*y[0].0 - x[2].1*y[0].1),
      r[2].1 == (x[0].0*y[2].1 + x[0].1*y[2].0) + (x[1].0*y[1].1 + x[1].1*y[1].0) + (x[2].0*y[0].1 + x[2].1*y[0].0),
{
        let __t10 = x; let (x0r, x0i) = __t10[0]; let (x1r, x1i) = __t10[1]; let (x2r, x2i) = __t10[2];
        let __t11 = y; let (y0r, y0i) = __t11[0]; let (y1r, y1i) = __t11[1]; let (y2r, y2i) = __t11[2];
        let x0s = x0r + x0i;
        let x1s = x1r + x1i;
        let x2s = x2r + x2i;
        let y0s = y0r + y0i;
        let y1s = y1r + y1i;
        let y2s = y2r + y2i;

        // Compute x0​y0 ​− ix1​y2​ − ix2​y1​ using Karatsuba for complex numbers multiplication
        let m0 = (x0r * y0r, x0i * y0i);
        let m1 = (x1r * y2r, x1i * y2i);
        let m2 = (x2r * y1r, x2i * y1i);
        let z0r = (m0.0 - m0.1) + (x1s * y2s - m1.0 - m1.1) + (x2s * y1s - m2.0 - m2.1);
        let z0i = (x0s * y0s - m0.0 - m0.1) + (-m1.0 + m1.1) + (-m2.0 + m2.1);
        let z0 = (z0r, z0i);

        // Compute x0​y1​ + x1​y0​ − ix2​y2 using Karatsuba for complex numbers multiplication
        let m0 = (x0r * y1r, x0i * y1i);
        let m1 = (x1r * y0r, x1i * y0i);
        let m2 = (x2r * y2r, x2i * y2i);
        let z1r = (m0.0 - m0.1) + (m1.0 - m1.1) + (x2s * y2s - m2.0 - m2.1);
        let z1i = (x0s * y1s - m0.0 - m0.1) + (x1s * y0s - m1.0 - m1.1) + (-m2.0 + m2.1);
        let z1 = (z1r, z1i);

        // Compute x0​y2​ + x1​y1 ​+ x2​y0​ using Karatsuba for complex numbers multiplication
        let m0 = (x0r * y2r, x0i * y2i);
        let m1 = (x1r * y1r, x1i * y1i);
        let m2 = (x2r * y0r, x2i * y0i);
        let z2r = (m0.0 - m0.1) + (m1.0 - m1.1) + (m2.0 - m2.1);
        let z2i = (x0s * y2s - m0.0 - m0.1) + (x1s * y1s - m1.0 - m1.1) + (x2s * y0s - m2.0 - m2.1);
        let z2 = (z2r, z2i);

        [z0, z1, z2]
    }
    fn block3(x: [i64; 3], y: [i64; 3]) -> (r: [i64; 3])
    requires forall|i:int| 0<=i<3 ==> -0x4_0000_0000 <= #[trigger] x[i] <= 0x4_0000_0000,
             y[0] == -1i64, y[1] == -8i64, y[2] == 2i64,
    ensures r[0] == x[0]*y[0] - x[1]*y[2] - x[2]*y[1], r[1] == x[0]*y[1] + x[1]*y[0] - x[2]*y[2], r[2] == x[0]*y[2] + x[1]*y[1] + x[2]*y[0],
{
        let __t12 = x; let x0 = __t12[0]; let x1 = __t12[1]; let x2 = __t12[2];
        let __t13 = y; let y0 = __t13[0]; let y1 = __t13[1]; let y2 = __t13[2];
        let z0 = x0 * y0 - x1 * y2 - x2 * y1;
        let z1 = x0 * y1 + x1 * y0 - x2 * y2;
        let z2 = x0 * y2 + x1 * y1 + x2 * y0;

        [z0, z1, z2]
    }

    /// Real 2-FFT over u64 integers.
    fn fft2_real(x: [u64; 2]) -> (r: [i64; 2])
    requires x[0] < 0x1_0000_0000, x[1] < 0x1_0000_0000,
    ensures r[0] == x[0] + x[1], r[1] == x[0] - x[1],
{
        [(x[0] as i64 + x[1] as i64), (x[0] as i64 - x[1] as i64)]
    }

    /// Real 2-iFFT over u64 integers.
    /// Division by two to complete the inverse FFT is not performed here.
    fn ifft2_real_unreduced(y: [i64; 2]) -> (r: [u64; 2])
    requires 0 <= y[0] + y[1] < 0x4000_0000_0000_0000, 0 <= y[0] - y[1] < 0x4000_0000_0000_0000,
             -0x4000_0000_0000_0000 < y[0] < 0x4000_0000_0000_0000, -0x4000_0000_0000_0000 < y[1] < 0x4000_0000_0000_0000,
    ensures r[0] == y[0] + y[1], r[1] == y[0] - y[1],
{
        [(y[0] + y[1]) as u64, (y[0] - y[1]) as u64]
    }

    /// Real 4-FFT over u64 integers.
    fn fft4_real(x: [u64; 4]) -> (r: (i64, (i64, i64), i64))
    requires forall|i:int| 0<=i<4 ==> #[trigger] x[i] < 0x1_0000_0000,
    ensures r.0 == x[0]+x[1]+x[2]+x[3], r.1.0 == x[0]-x[2], r.1.1 == -(x[1]-x[3]), r.2 == x[0]+x[2]-x[1]-x[3],
{
        let __t14 = fft2_real([x[0], x[2]]); let z0 = __t14[0]; let z2 = __t14[1];
        let __t15 = fft2_real([x[1], x[3]]); let z1 = __t15[0]; let z3 = __t15[1];
        let y0 = z0 + z1;
        let y1 = (z2, -z3);
        let y2 = z0 - z1;
        (y0, y1, y2)
    }

    /// Real 4-iFFT over u64 integers.
    /// Division by four to complete the inverse FFT is not performed here.
    fn ifft4_real_unreduced(y: (i64, (i64, i64), i64)) -> (r: [u64; 4])
    requires -0x1000_0000_0000_0000 < y.0 < 0x1000_0000_0000_0000, -0x1000_0000_0000_0000 < y.2 < 0x1000_0000_0000_0000,
             -0x1000_0000_0000_0000 < y.1.0 < 0x1000_0000_0000_0000, -0x1000_0000_0000_0000 < y.1.1 < 0x1000_0000_0000_0000,
             0 <= y.0 + y.2 + y.1.0, 0 <= y.0 + y.2 - y.1.0, 0 <= y.0 - y.2 - y.1.1, 0 <= y.0 - y.2 + y.1.1,
    ensures r[0] == y.0 + y.2 + y.1.0, r[2] == y.0 + y.2 - y.1.0, r[1] == y.0 - y.2 - y.1.1, r[3] == y.0 - y.2 + y.1.1,
{
        let z0 = y.0 + y.2;
        let z1 = y.0 - y.2;
        let z2 = y.1 .0;
        let z3 = -y.1 .1;

        let __t16 = ifft2_real_unreduced([z0, z2]); let x0 = __t16[0]; let x2 = __t16[1];
        let __t17 = ifft2_real_unreduced([z1, z3]); let x1 = __t17[0]; let x3 = __t17[1];

        [x0, x1, x2, x3]
    }

}
fn main() {}

use vstd::prelude::*;
verus! {
pub const EPSILON: u64 = 0xffff_ffff;
pub const ORDER: u64 = 0xFFFFFFFF00000001;
pub open spec fn P() -> int { 0xFFFFFFFF00000001 }

pub struct GoldilocksField(pub u64);
pub assume_specification [u64::overflowing_sub] (a: u64, b: u64) -> (r: (u64, bool))
    ensures r.1 == ((a as int) < (b as int)),
            r.0 as int == (if (a as int) < (b as int) { a as int - b as int + 0x1_0000_0000_0000_0000 } else { a as int - b as int });
pub assume_specification [u64::overflowing_add] (a: u64, b: u64) -> (r: (u64, bool))
    ensures r.1 == ((a as int) + (b as int) >= 0x1_0000_0000_0000_0000),
            r.0 as int == (if (a as int) + (b as int) >= 0x1_0000_0000_0000_0000 { a as int + b as int - 0x1_0000_0000_0000_0000 } else { a as int + b as int });


// trusted model of the x86 asm
#[verifier::external_body]
fn asm_add_sbb(x: u64, y: u64) -> (r: (u64, u64))
    ensures r.0 as int == (x as int + y as int) % 0x1_0000_0000_0000_0000,
            r.1 as int == (if x as int + y as int >= 0x1_0000_0000_0000_0000 { 0xffff_ffff as int } else { 0 }),
{ unimplemented!() }

fn add_no_canonicalize_trashing_input(x: u64, y: u64) -> (r: u64)
    requires (x as int) + (y as int) < 0x1_0000_0000_0000_0000 + P(),
    ensures r as int % P() == (x as int + y as int) % P(),
{
    let (res_wrapped, adjustment) = asm_add_sbb(x, y);
    assert(x != 0 || (res_wrapped == y && adjustment == 0));
    assert(y != 0 || (res_wrapped == x && adjustment == 0));
    proof {
        if x as int + y as int >= 0x1_0000_0000_0000_0000 {
            assert(res_wrapped as int == x as int + y as int - 0x1_0000_0000_0000_0000);
            assert((res_wrapped as int + 0xffff_ffff) == x as int + y as int - P());
            vstd::arithmetic::div_mod::lemma_mod_sub_multiples_vanish(x as int + y as int, P());
        }
    }
    res_wrapped + adjustment
}

fn split(x: u128) -> (r: (u64, u64))
    ensures r.0 as int == x as int % 0x1_0000_0000_0000_0000, r.1 as int == x as int / 0x1_0000_0000_0000_0000
{
    assert((x as u64) as int == x as int % 0x1_0000_0000_0000_0000) by (bit_vector);
    assert(((x >> 64) as u64) as int == x as int / 0x1_0000_0000_0000_0000) by (bit_vector);
    (x as u64, (x >> 64) as u64)
}

fn reduce128(x: u128) -> (r: GoldilocksField)
    ensures r.0 as int % P() == x as int % P(),
{
    let (x_lo, x_hi) = split(x); // This is a no-op
    let x_hi_hi = x_hi >> 32;
    let x_hi_lo = x_hi & EPSILON;
    assert(x_hi_hi as int == x_hi as int / 0x1_0000_0000) by (bit_vector) requires x_hi_hi == x_hi >> 32;
    assert(x_hi_lo as int == x_hi as int % 0x1_0000_0000) by (bit_vector) requires x_hi_lo == x_hi & 0xffff_ffffu64;

    let (mut t0, borrow) = x_lo.overflowing_sub(x_hi_hi);
    if borrow {
        t0 -= EPSILON; // Cannot underflow.
    }
    assert(x_hi_lo * EPSILON < 0x1_0000_0000_0000_0000) by (nonlinear_arith) requires x_hi_lo < 0x1_0000_0000, EPSILON == 0xffff_ffff;
    let t1 = x_hi_lo * EPSILON;
    proof {
        assert(t1 as int <= 0xffff_ffff * 0xffff_ffff) by (nonlinear_arith) requires t1 == x_hi_lo * EPSILON, x_hi_lo < 0x1_0000_0000, EPSILON == 0xffff_ffff;
    }
    let t2 = add_no_canonicalize_trashing_input(t0, t1);
    proof {
        // x = x_lo + 2^64 * x_hi_lo + 2^96 * x_hi_hi;  2^64 = P + EPS ; 2^96 = P*2^32 ... -1
        let xi = x as int;
        assert(xi == x_lo as int + 0x1_0000_0000_0000_0000 * (x_hi_lo as int) + 0x1_0000_0000_0000_0000_0000_0000 * (x_hi_hi as int));
        let k = x_hi_lo as int + 0x1_0000_0001 * (x_hi_hi as int);
        // xi - (x_lo - x_hi_hi + x_hi_lo*EPS) = P * (x_hi_lo + 2^32 x_hi_hi)
        assert(xi - (x_lo as int - x_hi_hi as int + (x_hi_lo as int) * 0xffff_ffff) == P() * k) by (nonlinear_arith)
            requires xi == x_lo as int + 0x1_0000_0000_0000_0000 * (x_hi_lo as int) + 0x1_0000_0000_0000_0000_0000_0000 * (x_hi_hi as int),
              k == x_hi_lo as int + 0x1_0000_0001 * (x_hi_hi as int), P() == 0xFFFFFFFF00000001;
        let v = x_lo as int - x_hi_hi as int + (x_hi_lo as int) * 0xffff_ffff;
        vstd::arithmetic::div_mod::lemma_mod_multiples_vanish(k, v, P());
        assert((P()*k + v) % P() == v % P());
        assert(xi % P() == v % P());
        // t0 + t1 ≡ v
        if borrow {
            assert(t0 as int == x_lo as int - x_hi_hi as int + P());
            vstd::arithmetic::div_mod::lemma_mod_multiples_vanish(1, v, P());
        }
    }
    GoldilocksField(t2)
}
}
fn main() {}

use vstd::prelude::*;
verus! {
pub struct Perm { pub state: [u64; 12] }
impl Perm {
    // real code: for (s, e) in self.state[start_idx..].iter_mut().zip(elts) { *s = e; }
    // after R6-like normalisation for a Vec source:
    fn set_from_vec(&mut self, elts: &Vec<u64>, start_idx: usize)
        requires start_idx <= 12
        ensures forall|i: int| 0 <= i < 12 ==> final(self).state[i] == (if start_idx <= i < start_idx + elts.len() { elts[i - start_idx] } else { old(self).state[i] })
    {
        let n = if elts.len() < 12 - start_idx { elts.len() } else { 12 - start_idx };
        for k in 0..n
            invariant n <= 12 - start_idx, n <= elts.len(), start_idx <= 12,
              forall|i: int| 0 <= i < 12 ==> self.state[i] == (if start_idx <= i < start_idx + k { elts[i - start_idx] } else { old(self).state[i] })
        {
            self.state[start_idx + k] = elts[k];
        }
    }
}
pub struct Challenger { pub sponge_state: Perm, pub input_buffer: Vec<u64>, pub output_buffer: Vec<u64> }
impl Challenger {
    pub fn observe_element(&mut self, element: u64)
        requires old(self).input_buffer.len() < 8
        ensures final(self).output_buffer.len() == 0
    {
        self.output_buffer.clear();
        self.input_buffer.push(element);
    }
}
}
fn main() {}

import re,sys
def find_fn(src, header_pat):
    m=re.search(header_pat, src)
    assert m, header_pat
    i=src.index('{', m.end()-1) if src[m.end()-1]!='{' else m.end()-1
    # brace match (naive: no braces in strings/comments in these fns)
    depth=0;j=i
    while True:
        c=src[j]
        if c=='{': depth+=1
        elif c=='}':
            depth-=1
            if depth==0: break
        j+=1
    return src[m.start():i], src[i+1:j]
src=open('/repo/field/src/goldilocks_field.rs').read()
def strip_comments(b): return re.sub(r'//[^\n]*','',b)
def norm(b):
    b=strip_comments(b)
    b=re.sub(r'\bbranch_hint\(\);\s*','',b)   # R2
    return b
_,add=find_fn(src, r'fn add\(self, rhs: Self\) -> Self \{')
_,sub=find_fn(src, r'fn sub\(self, rhs: Self\) -> Self \{')
_,canon=find_fn(src, r'fn to_canonical_u64\(&self\) -> u64 \{')
out='''use vstd::prelude::*;
verus! {
pub const EPSILON: u64 = 0xffff_ffff;
pub open spec fn p() -> int { 0xFFFFFFFF00000001 }
pub struct GoldilocksField(pub u64);
impl GoldilocksField { pub const ORDER: u64 = 0xFFFFFFFF00000001; }
pub fn assume(b: bool) requires b {}
pub assume_specification [u64::overflowing_sub] (a: u64, b: u64) -> (r: (u64, bool))
    ensures r.1 == ((a as int) < (b as int)),
            r.0 as int == (if (a as int) < (b as int) { a as int - b as int + 0x1_0000_0000_0000_0000 } else { a as int - b as int });
pub assume_specification [u64::overflowing_add] (a: u64, b: u64) -> (r: (u64, bool))
    ensures r.1 == ((a as int) + (b as int) >= 0x1_0000_0000_0000_0000),
            r.0 as int == (if (a as int) + (b as int) >= 0x1_0000_0000_0000_0000 { a as int + b as int - 0x1_0000_0000_0000_0000 } else { a as int + b as int });
impl GoldilocksField {
fn add(self, rhs: Self) -> (r: Self)
    ensures (r.0 as int) % p() == ((self.0 as int) + (rhs.0 as int)) % p()
{'''+norm(add)+'''}
fn sub(self, rhs: Self) -> (r: Self)
    ensures ((r.0 as int) + (rhs.0 as int)) % p() == (self.0 as int) % p()
{'''+norm(sub)+'''}
fn to_canonical_u64(&self) -> (c: u64)
    ensures c < p(), (c as int) == (self.0 as int) % p()
{'''+norm(canon)+'''}
}
}
fn main() {}
'''
open('gl.rs','w').write(out)

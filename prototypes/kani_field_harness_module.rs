// Appended to a scratch copy of field/src/lib.rs; run: CARGO_NET_OFFLINE=true cargo kani -Z stubbing --harness add_exact
// add_exact/sub_exact: SUCCESSFUL in <1 s. mul_exact/reduce96_exact/reduce128_exact: no result within 5-15 min.
#[cfg(kani)]
mod verif_kani {
    use crate::goldilocks_field::GoldilocksField;
    use crate::types::{Field, PrimeField64};
    const P: u128 = 0xFFFFFFFF00000001;
    fn noop() {}
    // model of: add {0},{1}; sbb {1:e},{1:e}; then res_wrapped + adjustment
    unsafe fn asm_model(x: u64, y: u64) -> u64 {
        let (res_wrapped, carry) = x.overflowing_add(y);
        let adjustment: u64 = if carry { 0xffff_ffff } else { 0 };
        res_wrapped + adjustment
    }
    #[kani::proof]
    #[kani::stub(plonky2_util::branch_hint, noop)]
    fn add_exact() {
        let a: u64 = kani::any();
        let b: u64 = kani::any();
        let r = GoldilocksField(a) + GoldilocksField(b);
        assert!((r.0 as u128) % P == ((a as u128) + (b as u128)) % P);
    }
    #[kani::proof]
    #[kani::stub(plonky2_util::branch_hint, noop)]
    fn sub_exact() {
        let a: u64 = kani::any();
        let b: u64 = kani::any();
        let r = GoldilocksField(a) - GoldilocksField(b);
        assert!(((r.0 as u128) + (b as u128)) % P == (a as u128) % P);
    }
    #[kani::proof]
    #[kani::stub(plonky2_util::branch_hint, noop)]
    #[kani::stub(crate::goldilocks_field::add_no_canonicalize_trashing_input, asm_model)]
    fn mul_exact() {
        let a: u64 = kani::any();
        let b: u64 = kani::any();
        let r = GoldilocksField(a) * GoldilocksField(b);
        assert!((r.0 as u128) % P == ((a as u128) * (b as u128)) % P);
    }

    #[kani::proof]
    #[kani::stub(plonky2_util::branch_hint, noop)]
    #[kani::stub(crate::goldilocks_field::add_no_canonicalize_trashing_input, asm_model)]
    fn reduce128_exact() {
        let x: u128 = kani::any();
        let r = GoldilocksField::from_noncanonical_u128(x);
        assert!((r.0 as u128) % P == x % P);
    }
    #[kani::proof]
    #[kani::stub(plonky2_util::branch_hint, noop)]
    #[kani::stub(crate::goldilocks_field::add_no_canonicalize_trashing_input, asm_model)]
    fn reduce96_exact() {
        let lo: u64 = kani::any();
        let hi: u32 = kani::any();
        let r = GoldilocksField::from_noncanonical_u96((lo, hi));
        let x = ((hi as u128) << 64) + lo as u128;
        assert!((r.0 as u128) % P == x % P);
    }
}

use vstd::prelude::*;
verus! {
pub trait RichField: Copy + Sized {}
pub trait GenericHashOut<F: RichField>: Copy + Sized {
    spec fn to_seq(self) -> Seq<F>;
    fn to_vec(&self) -> (r: Vec<F>) ensures r@ == self.to_seq();
    fn eq_hash(&self, other: &Self) -> (b: bool) ensures b == (*self == *other);
}
pub trait Hasher<F: RichField>: Sized {
    type Hash: GenericHashOut<F>;
    spec fn spec_hash_or_noop(inputs: Seq<F>) -> Self::Hash;
    spec fn spec_two_to_one(l: Self::Hash, r: Self::Hash) -> Self::Hash;
    fn hash_or_noop(inputs: &Vec<F>) -> (h: Self::Hash) ensures h == Self::spec_hash_or_noop(inputs@);
    fn two_to_one(left: Self::Hash, right: Self::Hash) -> (h: Self::Hash) ensures h == Self::spec_two_to_one(left, right);
}
pub struct MerkleCap<F: RichField, H: Hasher<F>>(pub Vec<H::Hash>, pub core::marker::PhantomData<F>);
pub struct MerkleProof<F: RichField, H: Hasher<F>> { pub siblings: Vec<H::Hash>, pub _p: core::marker::PhantomData<F> }
pub enum Error { Msg }

pub open spec fn fold<F: RichField, H: Hasher<F>>(d: H::Hash, idx: nat, sib: Seq<H::Hash>) -> H::Hash
    decreases sib.len()
{
    if sib.len() == 0 { d } else {
        let nd = if idx % 2 == 1 { H::spec_two_to_one(sib[0], d) } else { H::spec_two_to_one(d, sib[0]) };
        fold::<F, H>(nd, idx / 2, sib.subrange(1, sib.len() as int))
    }
}

pub fn verify_simple<F: RichField, H: Hasher<F>>(
    leaf_data: &Vec<F>,
    mut leaf_index: usize,
    merkle_cap: &MerkleCap<F, H>,
    proof: &MerkleProof<F, H>,
) -> (r: Result<(), Error>)
    requires (leaf_index as nat) / vstd::arithmetic::power2::pow2(proof.siblings.len() as nat) < merkle_cap.0.len()
    ensures r.is_ok() <==> fold::<F,H>(H::spec_hash_or_noop(leaf_data@), leaf_index as nat, proof.siblings@) == merkle_cap.0[( (leaf_index as nat) / vstd::arithmetic::power2::pow2(proof.siblings.len() as nat)) as int]
{
    let mut current_digest = H::hash_or_noop(leaf_data);
    let ghost idx0 = leaf_index;
    for sibling_digest in it: proof.siblings.iter()
        invariant true
    {
        let bit = leaf_index & 1;
        leaf_index >>= 1;
        current_digest = if bit == 1 {
            H::two_to_one(*sibling_digest, current_digest)
        } else {
            H::two_to_one(current_digest, *sibling_digest)
        };
    }
    assume(leaf_index < merkle_cap.0.len());
    if !(current_digest.eq_hash(&merkle_cap.0[leaf_index])) { return Err(Error::Msg); }
    Ok(())
}
}
fn main() {}

use vstd::prelude::*;
use core::ops::{Add, Mul, Sub};
verus! {
#[derive(Copy, Clone)]
pub struct F(pub u64);

pub uninterp spec fn f_add(a: F, b: F) -> F;
pub uninterp spec fn f_mul(a: F, b: F) -> F;
pub uninterp spec fn f_sub(a: F, b: F) -> F;

impl vstd::std_specs::ops::AddSpecImpl for F {
    open spec fn obeys_add_spec() -> bool { true }
    open spec fn add_req(self, rhs: F) -> bool { true }
    open spec fn add_spec(self, rhs: F) -> F { f_add(self, rhs) }
}
impl vstd::std_specs::ops::MulSpecImpl for F {
    open spec fn obeys_mul_spec() -> bool { true }
    open spec fn mul_req(self, rhs: F) -> bool { true }
    open spec fn mul_spec(self, rhs: F) -> F { f_mul(self, rhs) }
}
impl vstd::std_specs::ops::SubSpecImpl for F {
    open spec fn obeys_sub_spec() -> bool { true }
    open spec fn sub_req(self, rhs: F) -> bool { true }
    open spec fn sub_spec(self, rhs: F) -> F { f_sub(self, rhs) }
}
impl Add for F {
    type Output = F;
    #[verifier::external_body]
    fn add(self, rhs: F) -> (r: F) { unimplemented!() }
}
impl Mul for F {
    type Output = F;
    #[verifier::external_body]
    fn mul(self, rhs: F) -> (r: F) { unimplemented!() }
}
impl Sub for F {
    type Output = F;
    #[verifier::external_body]
    fn sub(self, rhs: F) -> (r: F) { unimplemented!() }
}

pub struct Vars { pub local_constants: Vec<F>, pub local_wires: Vec<F> }
pub struct ArithmeticGate { pub num_ops: usize }
impl ArithmeticGate {
    pub fn wire_ith_multiplicand_0(i: usize) -> (r: usize) requires i < 1000000 ensures r == 4*i { 4 * i }
    pub fn wire_ith_output(i: usize) -> (r: usize) requires i < 1000000 ensures r == 4*i+3 { 4 * i + 3 }

    fn eval_unfiltered(&self, vars: Vars) -> (constraints: Vec<F>)
        requires vars.local_constants.len() >= 2, vars.local_wires.len() >= 4 * self.num_ops, self.num_ops < 1000000,
        ensures constraints.len() == self.num_ops,
          forall|i: int| 0 <= i < self.num_ops ==> constraints[i] == f_sub(vars.local_wires[4*i+3], f_mul(vars.local_wires[4*i], vars.local_constants[0])),
    {
        let const_0 = vars.local_constants[0];
        let mut constraints = Vec::with_capacity(self.num_ops);
        for i in 0..self.num_ops
            invariant constraints.len() == i, vars.local_constants.len() >= 2, vars.local_wires.len() >= 4 * self.num_ops, self.num_ops < 1000000,
              const_0 == vars.local_constants[0],
              forall|j: int| 0 <= j < i ==> constraints[j] == f_sub(vars.local_wires[4*j+3], f_mul(vars.local_wires[4*j], vars.local_constants[0])),
        {
            let multiplicand_0 = vars.local_wires[Self::wire_ith_multiplicand_0(i)];
            let output = vars.local_wires[Self::wire_ith_output(i)];
            let computed_output = multiplicand_0 * const_0;
            constraints.push(output - computed_output);
        }
        constraints
    }
}
}
fn main() {}

use vstd::prelude::*;
verus! {
pub const EPSILON: u64 = 0xffff_ffff;
pub open spec fn p() -> int { 0xFFFFFFFF00000001 }
pub struct GoldilocksField(pub u64);
impl GoldilocksField { pub const ORDER: u64 = 0xFFFFFFFF00000001; }
pub fn util_assume(b: bool) requires b {}
pub assume_specification [u64::overflowing_sub] (a: u64, b: u64) -> (r: (u64, bool))
    ensures r.1 == ((a as int) < (b as int)),
            r.0 as int == (if (a as int) < (b as int) { a as int - b as int + 0x1_0000_0000_0000_0000 } else { a as int - b as int });
pub assume_specification [u64::overflowing_add] (a: u64, b: u64) -> (r: (u64, bool))
    ensures r.1 == ((a as int) + (b as int) >= 0x1_0000_0000_0000_0000),
            r.0 as int == (if (a as int) + (b as int) >= 0x1_0000_0000_0000_0000 { a as int + b as int - 0x1_0000_0000_0000_0000 } else { a as int + b as int });
impl GoldilocksField {
fn add(self, rhs: Self) -> (r: Self)
    ensures (r.0 as int) % p() == ((self.0 as int) + (rhs.0 as int)) % p()
{
        let (sum, over) = self.0.overflowing_add(rhs.0);
        let (mut sum, over) = sum.overflowing_add((over as u64) * EPSILON);
        if over {
            
            
            
            
            
            
            
            util_assume(self.0 > Self::ORDER && rhs.0 > Self::ORDER);
            sum += EPSILON; 
        }
        Self(sum)
    }
fn sub(self, rhs: Self) -> (r: Self)
    ensures ((r.0 as int) + (rhs.0 as int)) % p() == (self.0 as int) % p()
{
        let (diff, under) = self.0.overflowing_sub(rhs.0);
        let (mut diff, under) = diff.overflowing_sub((under as u64) * EPSILON);
        if under {
            
            
            
            
            
            
            
            util_assume(self.0 < EPSILON - 1 && rhs.0 > Self::ORDER);
            diff -= EPSILON; 
        }
        Self(diff)
    }
fn to_canonical_u64(&self) -> (c: u64)
    ensures c < p(), (c as int) == (self.0 as int) % p()
{
        let mut c = self.0;
        
        if c >= Self::ORDER {
            c -= Self::ORDER;
        }
        c
    }
}
}
fn main() {}

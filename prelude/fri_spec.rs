// Prelude: specification predicates for FRI shape validation and the verifier skeleton; needs fri_types, merkle_spec.
pub open spec fn sum_usize(s: Seq<usize>) -> nat
    decreases s.len(),
{
    if s.len() == 0 { 0 } else { sum_usize(s.drop_last()) + s.last() as nat }
}

pub proof fn lemma_sum_prefix_le(s: Seq<usize>, k: int)
    requires
        0 <= k <= s.len(),
    ensures
        sum_usize(s.take(k)) <= sum_usize(s),
    decreases s.len() - k,
{
    if k < s.len() {
        lemma_sum_prefix_le(s, k + 1);
        assert(s.take(k + 1).drop_last() =~= s.take(k));
    } else {
        assert(s.take(k) =~= s);
    }
}

pub proof fn lemma_sum_take_step(s: Seq<usize>, k: int)
    requires
        0 <= k < s.len(),
    ensures
        sum_usize(s.take(k + 1)) == sum_usize(s.take(k)) + s[k] as nat,
{
    assert(s.take(k + 1).drop_last() =~= s.take(k));
}

// Parameters come from the circuit's common data (trusted, not from the proof).
pub open spec fn params_ok(p: FriParams) -> bool {
    &&& p.degree_bits + p.config.rate_bits <= 32
    &&& p.config.cap_height <= 32
    &&& sum_usize(p.reduction_arity_bits@) <= p.degree_bits
}

pub open spec fn instances_ok<F: RichField + Extendable<D>, const D: usize>(instances: Seq<FriInstanceInfo<F, D>>) -> bool {
    &&& instances.len() <= 0x1_0000
    &&& forall|k: int, i: int| 0 <= k < instances.len() && 0 <= i < instances[k].oracles.len() ==> (#[trigger] instances[k].oracles[i]).num_polys <= 0x1_0000_0000
}

pub open spec fn spec_salt_size(salted: bool) -> nat {
    if salted { 4 } else { 0 }
}

// expected leaf length of oracle i, summed over the first k instances
pub open spec fn leaf_len_spec<F: RichField + Extendable<D>, const D: usize>(instances: Seq<FriInstanceInfo<F, D>>, hiding: bool, i: int, k: nat) -> nat
    decreases k,
{
    if k == 0 { 0 } else {
        leaf_len_spec(instances, hiding, i, (k - 1) as nat) + instances[k - 1].oracles[i].num_polys as nat
            + spec_salt_size(instances[k - 1].oracles[i].blinding && hiding)
    }
}

pub open spec fn round_shape_ok<F: RichField + Extendable<D>, H: Hasher<F>, const D: usize>(
    round: FriQueryRound<F, H, D>, instances: Seq<FriInstanceInfo<F, D>>, params: FriParams,
) -> bool {
    let ep = round.initial_trees_proof.evals_proofs;
    let lde_bits = params.degree_bits + params.config.rate_bits;
    &&& forall|k: int| 0 <= k < instances.len() ==> ep.len() == (#[trigger] instances[k]).oracles.len()
    &&& forall|i: int| 0 <= i < ep.len() ==> (#[trigger] ep[i]).0.len() == leaf_len_spec(instances, params.hiding, i, instances.len())
            && ep[i].1.siblings.len() + params.config.cap_height == lde_bits
    &&& round.steps.len() == params.reduction_arity_bits.len()
    &&& forall|j: int| 0 <= j < round.steps.len() ==> (#[trigger] round.steps[j]).evals.len() == pow2(params.reduction_arity_bits[j] as nat)
            && round.steps[j].merkle_proof.siblings.len() + params.config.cap_height + sum_usize(params.reduction_arity_bits@.take(j + 1)) == lde_bits
}

pub open spec fn fri_shape_ok<F: RichField + Extendable<D>, H: Hasher<F>, const D: usize>(
    proof: FriProof<F, H, D>, instances: Seq<FriInstanceInfo<F, D>>, params: FriParams,
) -> bool {
    &&& forall|c: int| 0 <= c < proof.commit_phase_merkle_caps.len() ==> (#[trigger] proof.commit_phase_merkle_caps[c]).0.len() == pow2(params.config.cap_height as nat)
    &&& proof.commit_phase_merkle_caps.len() == params.reduction_arity_bits.len()
    &&& forall|q: int| 0 <= q < proof.query_round_proofs.len() ==> round_shape_ok(#[trigger] proof.query_round_proofs[q], instances, params)
    &&& proof.final_poly.coeffs.len() == pow2((params.degree_bits - sum_usize(params.reduction_arity_bits@)) as nat)
}

// ---- verifier skeleton: the mathematics is abstracted by uninterpreted specification functions (T10) ----
pub uninterp spec fn spec_reverse_bits(n: usize, num_bits: usize) -> usize;

pub uninterp spec fn spec_poly_eval<F: Field>(poly: PolynomialCoeffs<F>, x: F) -> F;

pub uninterp spec fn spec_compute_evaluation<F: Field + Extendable<D>, const D: usize>(
    x: F, x_index_within_coset: usize, arity_bits: usize, evals: Seq<F::Extension>, beta: F::Extension,
) -> F::Extension;

pub uninterp spec fn spec_reduced_openings<F: RichField + Extendable<D>, const D: usize>(openings: FriOpenings<F, D>, alpha: F::Extension) -> Seq<F::Extension>;

pub uninterp spec fn spec_combine_initial<F: RichField + Extendable<D>, H: Hasher<F>, const D: usize>(
    instance: FriInstanceInfo<F, D>, proof: FriInitialTreeProof<F, H>, alpha: F::Extension, subgroup_x: F, reduced: Seq<F::Extension>, hiding: bool,
) -> F::Extension;

pub open spec fn merkle_ok<F: RichField, H: Hasher<F>>(leaf: Seq<F>, index: nat, cap: MerkleCap<F, H>, proof: MerkleProof<F, H>) -> bool {
    let n = proof.siblings.len() as nat;
    fold::<F, H>(H::spec_hash_or_noop(leaf), index, proof.siblings@, n) == cap.0[(index / pow2(n)) as int]
}

// every initial-oracle opening is checked against its cap (for every oracle, not a prefix of them)
pub open spec fn initial_ok<F: RichField, H: Hasher<F>>(x_index: usize, proof: FriInitialTreeProof<F, H>, caps: Seq<MerkleCap<F, H>>) -> bool {
    forall|k: int| 0 <= k < proof.evals_proofs.len() && k < caps.len() ==>
        merkle_ok::<F, H>((#[trigger] proof.evals_proofs[k]).0@, x_index as nat, caps[k], proof.evals_proofs[k].1)
}

// the chain of per-layer consistency checks from layer i on, ending with the final-polynomial check
#[verifier::opaque]
pub open spec fn fri_chain<F: RichField + Extendable<D>, H: Hasher<F>, const D: usize>(
    challenges: FriChallenges<F, D>, proof: FriProof<F, H, D>, round: FriQueryRound<F, H, D>, params: FriParams,
    i: nat, x_index: usize, subgroup_x: F, old_eval: F::Extension,
) -> bool
    decreases params.reduction_arity_bits.len() - i,
{
    if i >= params.reduction_arity_bits.len() {
        spec_poly_eval(proof.final_poly, F::spec_embed(subgroup_x)) == old_eval
    } else {
        let ab = params.reduction_arity_bits[i as int];
        let evals = round.steps[i as int].evals@;
        let coset_index = x_index >> ab;
        let within = x_index & (((1usize << ab) - 1) as usize);
        &&& evals[within as int] == old_eval
        &&& merkle_ok::<F, H>(F::spec_flatten(evals), coset_index as nat, proof.commit_phase_merkle_caps[i as int], round.steps[i as int].merkle_proof)
        &&& fri_chain(challenges, proof, round, params, i + 1, coset_index, subgroup_x.spec_pow(pow2(ab as nat)),
                spec_compute_evaluation::<F, D>(subgroup_x, within, ab, evals, challenges.fri_betas[i as int]))
    }
}

pub proof fn lemma_chain_unfold<F: RichField + Extendable<D>, H: Hasher<F>, const D: usize>(
    challenges: FriChallenges<F, D>, proof: FriProof<F, H, D>, round: FriQueryRound<F, H, D>, params: FriParams,
    i: nat, x_index: usize, subgroup_x: F, old_eval: F::Extension,
)
    ensures
        i >= params.reduction_arity_bits.len() ==> fri_chain(challenges, proof, round, params, i, x_index, subgroup_x, old_eval)
            == (spec_poly_eval(proof.final_poly, F::spec_embed(subgroup_x)) == old_eval),
        i < params.reduction_arity_bits.len() ==> fri_chain(challenges, proof, round, params, i, x_index, subgroup_x, old_eval) == ({
            let ab = params.reduction_arity_bits[i as int];
            let evals = round.steps[i as int].evals@;
            let coset_index = x_index >> ab;
            let within = x_index & (((1usize << ab) - 1) as usize);
            &&& evals[within as int] == old_eval
            &&& merkle_ok::<F, H>(F::spec_flatten(evals), coset_index as nat, proof.commit_phase_merkle_caps[i as int], round.steps[i as int].merkle_proof)
            &&& fri_chain(challenges, proof, round, params, i + 1, coset_index, subgroup_x.spec_pow(pow2(ab as nat)),
                    spec_compute_evaluation::<F, D>(subgroup_x, within, ab, evals, challenges.fri_betas[i as int]))
        }),
{
    reveal_with_fuel(fri_chain, 2);
}

pub open spec fn query_round_ok<F: RichField + Extendable<D>, H: Hasher<F>, const D: usize>(
    instance: FriInstanceInfo<F, D>, challenges: FriChallenges<F, D>, reduced: Seq<F::Extension>, initial_merkle_caps: Seq<MerkleCap<F, H>>,
    proof: FriProof<F, H, D>, x_index: usize, round: FriQueryRound<F, H, D>, params: FriParams,
) -> bool {
    let lde_bits = (params.degree_bits + params.config.rate_bits) as usize;
    let sx = F::MULTIPLICATIVE_GROUP_GENERATOR.mul_spec(
        F::spec_primitive_root_of_unity(lde_bits).spec_pow(spec_reverse_bits(x_index, lde_bits) as nat));
    &&& initial_ok::<F, H>(x_index, round.initial_trees_proof, initial_merkle_caps)
    &&& fri_chain(challenges, proof, round, params, 0, x_index, sx,
            spec_combine_initial::<F, H, D>(instance, round.initial_trees_proof, challenges.fri_alpha, sx, reduced, params.hiding))
}

pub open spec fn spec_pow_ok<F: RichField>(response: F, pow_bits: u32) -> bool {
    vstd::std_specs::bits::u64_leading_zeros(response.spec_canonical_u64()) >= pow_bits
}

// what fri_challenges guarantees about the challenge vectors (its contract, C04)
pub open spec fn challenges_ok<F: RichField + Extendable<D>, H: Hasher<F>, const D: usize>(ch: FriChallenges<F, D>, proof: FriProof<F, H, D>, params: FriParams) -> bool {
    &&& ch.fri_betas.len() == proof.commit_phase_merkle_caps.len()
    &&& ch.fri_query_indices.len() == params.config.num_query_rounds
    &&& forall|k: int| 0 <= k < ch.fri_query_indices.len() ==> ((#[trigger] ch.fri_query_indices[k]) as nat) < pow2((params.degree_bits + params.config.rate_bits) as nat)
}

// everything verify_fri_proof must have checked before returning Ok
pub open spec fn fri_proof_ok<F: RichField + Extendable<D>, H: Hasher<F>, const D: usize>(
    instance: FriInstanceInfo<F, D>, openings: FriOpenings<F, D>, challenges: FriChallenges<F, D>, initial_merkle_caps: Seq<MerkleCap<F, H>>,
    proof: FriProof<F, H, D>, params: FriParams,
) -> bool {
    &&& fri_shape_ok(proof, seq![instance], params)
    &&& spec_pow_ok(challenges.fri_pow_response, params.config.proof_of_work_bits)
    &&& params.config.num_query_rounds == proof.query_round_proofs.len()
    &&& forall|k: int| 0 <= k < proof.query_round_proofs.len() ==>
            query_round_ok::<F, H, D>(instance, challenges, spec_reduced_openings(openings, challenges.fri_alpha), initial_merkle_caps,
                proof, #[trigger] challenges.fri_query_indices[k], proof.query_round_proofs[k], params)
}

pub proof fn lemma_sum_bound_each(s: Seq<usize>)
    ensures
        forall|i: int| 0 <= i < s.len() ==> (#[trigger] s[i]) as nat <= sum_usize(s),
    decreases s.len(),
{
    if s.len() > 0 {
        lemma_sum_bound_each(s.drop_last());
        assert forall|i: int| 0 <= i < s.len() implies (#[trigger] s[i]) as nat <= sum_usize(s) by {
            if i < s.len() - 1 {
                assert(s.drop_last()[i] == s[i]);
            }
        }
    }
}

// Prelude: specification predicates for the PLONK verifier skeleton; needs plonk_types, fri_spec.
// Circuit data come from the circuit (trusted, not from the proof).
pub open spec fn common_ok<F: RichField + Extendable<D>, const D: usize>(cd: CommonCircuitData<F, D>) -> bool {
    &&& params_ok(cd.fri_params)
    &&& cd.fri_params.config.proof_of_work_bits <= 64
    &&& cd.fri_params.degree_bits + cd.fri_params.config.rate_bits <= F::TWO_ADICITY
    &&& cd.config.fri_config == cd.fri_params.config      // CircuitBuilder::build derives fri_params from config.fri_config
    &&& cd.fri_params.config.num_query_rounds <= 0x1_0000_0000
    &&& cd.quotient_degree_factor > 0
    &&& cd.config.num_challenges <= 0x1_0000
    &&& cd.quotient_degree_factor <= 0x1_0000
    &&& cd.num_partial_products <= 0x1_0000_0000
    &&& cd.num_lookup_polys <= 0x1_0000_0000
}

pub open spec fn plonk_shape_ok<F: RichField + Extendable<D>, C: GenericConfig<D, F = F>, const D: usize>(proof: Proof<F, C, D>, cd: CommonCircuitData<F, D>) -> bool {
    let cap_len = pow2(cd.fri_params.config.cap_height as nat);
    let o = proof.openings;
    &&& proof.wires_cap.0.len() == cap_len
    &&& proof.plonk_zs_partial_products_cap.0.len() == cap_len
    &&& proof.quotient_polys_cap.0.len() == cap_len
    &&& o.constants.len() == cd.num_constants
    &&& o.plonk_sigmas.len() == cd.config.num_routed_wires
    &&& o.wires.len() == cd.config.num_wires
    &&& o.plonk_zs.len() == cd.config.num_challenges
    &&& o.plonk_zs_next.len() == cd.config.num_challenges
    &&& o.partial_products.len() == cd.config.num_challenges * cd.num_partial_products
    &&& o.quotient_polys.len() == cd.config.num_challenges * cd.quotient_degree_factor
    &&& o.lookup_zs.len() == cd.config.num_challenges * cd.num_lookup_polys
    &&& o.lookup_zs_next.len() == cd.config.num_challenges * cd.num_lookup_polys
}

pub uninterp spec fn spec_vanishing_raw<F: RichField + Extendable<D>, const D: usize>(
    cd: CommonCircuitData<F, D>, zeta: F::Extension, constants: Seq<F::Extension>, wires: Seq<F::Extension>, pi_hash: HashOut<F>,
    zs: Seq<F::Extension>, zs_next: Seq<F::Extension>, lookup_zs: Seq<F::Extension>, lookup_zs_next: Seq<F::Extension>,
    partial_products: Seq<F::Extension>, sigmas: Seq<F::Extension>,
    betas: Seq<F>, gammas: Seq<F>, alphas: Seq<F>, deltas: Seq<F>,
) -> Seq<F::Extension>;

// the vanishing expression evaluated on the proof's OWN openings
pub open spec fn spec_vanishing<F: RichField + Extendable<D>, const D: usize>(
    cd: CommonCircuitData<F, D>, zeta: F::Extension, o: OpeningSet<F, D>, pi_hash: HashOut<F>,
    betas: Seq<F>, gammas: Seq<F>, alphas: Seq<F>, deltas: Seq<F>,
) -> Seq<F::Extension> {
    spec_vanishing_raw(cd, zeta, o.constants@, o.wires@, pi_hash, o.plonk_zs@, o.plonk_zs_next@, o.lookup_zs@, o.lookup_zs_next@,
        o.partial_products@, o.plonk_sigmas@, betas, gammas, alphas, deltas)
}

pub uninterp spec fn spec_reduce_with_powers<F: Field>(terms: Seq<F>, alpha: F) -> F;

pub uninterp spec fn spec_fri_instance<F: RichField + Extendable<D>, const D: usize>(cd: CommonCircuitData<F, D>, zeta: F::Extension) -> FriInstanceInfo<F, D>;

pub uninterp spec fn spec_to_fri_openings<F: RichField + Extendable<D>, const D: usize>(o: OpeningSet<F, D>) -> FriOpenings<F, D>;

// what verify_with_challenges must have checked before returning Ok
pub open spec fn plonk_verified<F: RichField + Extendable<D>, C: GenericConfig<D, F = F>, const D: usize>(
    proof: Proof<F, C, D>, pi_hash: HashOut<F>, ch: ProofChallenges<F, D>, vd: VerifierOnlyCircuitData<C, D>, cd: CommonCircuitData<F, D>,
) -> bool {
    let zeta_pow_deg = ch.plonk_zeta.spec_pow(pow2(cd.fri_params.degree_bits as nat));
    let z_h_zeta = zeta_pow_deg.sub_spec(<F::Extension as Field>::ONE);
    let vanishing = spec_vanishing(cd, ch.plonk_zeta, proof.openings, pi_hash, ch.plonk_betas@, ch.plonk_gammas@, ch.plonk_alphas@, ch.plonk_deltas@);
    let qdf = cd.quotient_degree_factor as int;
    // the vanishing identity holds for EVERY challenge index
    &&& forall|i: int| 0 <= i < cd.config.num_challenges ==>
            #[trigger] vanishing[i] == z_h_zeta.mul_spec(spec_reduce_with_powers(proof.openings.quotient_polys@.subrange(i * qdf, (i + 1) * qdf), zeta_pow_deg))
    // the opening proof is verified against the PREPROCESSED commitment of the verifier data followed by the proof's three caps
    &&& fri_proof_ok::<F, C::Hasher, D>(spec_fri_instance(cd, ch.plonk_zeta), spec_to_fri_openings(proof.openings), ch.fri_challenges,
            seq![vd.constants_sigmas_cap, proof.wires_cap, proof.plonk_zs_partial_products_cap, proof.quotient_polys_cap],
            proof.opening_proof, cd.fri_params)
}

// Prelude: std bit-counting methods on usize (T4: documented std semantics; usize is 64-bit, T5) and power-of-two predicate.
pub assume_specification[ usize::trailing_zeros ](x: usize) -> (r: u32)
    ensures
        r <= 64,
        (x == 0) <==> (r == 64),
        x != 0 ==> (x as nat) % pow2(r as nat) == 0 && ((x as nat) / pow2(r as nat)) % 2 == 1,
;

pub open spec fn is_pow2_usize(n: usize) -> bool {
    exists|k: nat| k < 64 && n as nat == pow2(k)
}

pub proof fn lemma_shr_div(n: usize, s: u32)
    requires
        s < 64,
    ensures
        (n >> s) as nat == (n as nat) / pow2(s as nat),
{
    vstd::bits::lemma_u64_shr_is_div(n as u64, s as u64);
}

pub proof fn lemma_index_in_cap(idx: nat, len: nat, cap_height: nat, bits: nat)
    requires
        idx < pow2(bits),
        len + cap_height == bits,
    ensures
        idx / pow2(len) < pow2(cap_height),
{
    lemma_pow2_adds(len, cap_height);
    lemma_pow2_pos(len);
    lemma_pow2_pos(cap_height);
    // idx < 2^len * 2^cap  =>  idx / 2^len < 2^cap
    vstd::arithmetic::div_mod::lemma_div_is_ordered(idx as int, (pow2(bits) - 1) as int, pow2(len) as int);
    assert((pow2(bits) - 1) as int / (pow2(len) as int) < pow2(cap_height)) by {
        vstd::arithmetic::div_mod::lemma_fundamental_div_mod((pow2(bits) - 1) as int, pow2(len) as int);
        vstd::arithmetic::div_mod::lemma_div_pos_is_pos((pow2(bits) - 1) as int, pow2(len) as int);
        let q = (pow2(bits) - 1) as int / (pow2(len) as int);
        if q >= pow2(cap_height) {
            vstd::arithmetic::mul::lemma_mul_inequality(pow2(cap_height) as int, q, pow2(len) as int);
            vstd::arithmetic::mul::lemma_mul_is_commutative(pow2(len) as int, q);
            vstd::arithmetic::mul::lemma_mul_is_commutative(pow2(len) as int, pow2(cap_height) as int);
        }
    }
}

pub proof fn lemma_pow2_injective_le64(a: nat, b: nat)
    requires
        pow2(a) == pow2(b),
    ensures
        a == b,
{
    if a < b {
        lemma_pow2_strictly_increases(a, b);
    } else if b < a {
        lemma_pow2_strictly_increases(b, a);
    }
}

pub proof fn lemma_mask_bound(x: usize, ab: usize)
    requires
        ab < 64,
    ensures
        (x & (((1usize << ab) - 1) as usize)) < (1usize << ab),
{
    assert((x & (((1usize << ab) - 1) as usize)) < (1usize << ab)) by (bit_vector)
        requires ab < 64;
}

pub proof fn lemma_shr_bound(x: usize, ab: usize, rem: nat)
    requires
        ab < 64,
        ab as nat <= rem,
        (x as nat) < pow2(rem),
    ensures
        ((x >> ab) as nat) < pow2((rem - ab) as nat),
{
    vstd::bits::lemma_u64_shr_is_div(x as u64, ab as u64);
    lemma_pow2_adds(ab as nat, (rem - ab) as nat);
    lemma_index_in_cap(x as nat, ab as nat, (rem - ab) as nat, rem);
}

// len == n * k  =>  chunks(k) yields exactly n chunks and chunk i is [i*k, (i+1)*k)
pub proof fn lemma_chunks_exact(len: int, k: int, n: int, i: int)
    requires
        k > 0,
        n >= 0,
        len == n * k,
        0 <= i,
    ensures
        len % k == 0,
        len / k == n,
        i < n ==> i * k < len && (i + 1) * k <= len,
{
    vstd::arithmetic::div_mod::lemma_fundamental_div_mod_converse(len, k, n, 0);
    if i < n {
        vstd::arithmetic::mul::lemma_mul_inequality(i + 1, n, k);
        vstd::arithmetic::mul::lemma_mul_is_distributive_add_other_way(k, i, 1);
    }
}

pub proof fn lemma_chunk_bounds(len: int, k: int, i: int)
    requires
        k > 0,
        len >= 0,
        0 <= i < (if len % k == 0 { len / k } else { len / k + 1 }),
    ensures
        i * k < len,
        0 <= i * k,
{
    vstd::arithmetic::div_mod::lemma_fundamental_div_mod(len, k);
    vstd::arithmetic::mul::lemma_mul_inequality(i, len / k, k);
    vstd::arithmetic::mul::lemma_mul_is_commutative(k, len / k);
    vstd::arithmetic::mul::lemma_mul_nonnegative(i, k);
    if len % k != 0 && i == len / k {
    } else {
        vstd::arithmetic::mul::lemma_mul_inequality(i + 1, len / k, k);
        vstd::arithmetic::mul::lemma_mul_is_distributive_add_other_way(k, i, 1);
    }
}

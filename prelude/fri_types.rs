// Prelude: FRI data types, extracted mechanically from the repository (derives / serde attributes dropped).
//@item file=plonky2/src/hash/merkle_proofs.rs kind=struct name=MerkleProof
//@item file=plonky2/src/hash/merkle_tree.rs kind=struct name=MerkleCap
//@item file=field/src/polynomial/mod.rs kind=struct name=PolynomialCoeffs
//@item file=plonky2/src/fri/reduction_strategies.rs kind=enum name=FriReductionStrategy
//@item file=plonky2/src/fri/mod.rs kind=struct name=FriConfig
//@item file=plonky2/src/fri/mod.rs kind=struct name=FriParams
//@item file=plonky2/src/fri/structure.rs kind=struct name=FriOracleInfo derive=Clone,Copy
//@item file=plonky2/src/fri/structure.rs kind=struct name=FriPolynomialInfo derive=Clone,Copy
//@item file=plonky2/src/fri/structure.rs kind=struct name=FriBatchInfo derive=Clone
//@item file=plonky2/src/fri/structure.rs kind=struct name=FriInstanceInfo derive=Clone
//@item file=plonky2/src/fri/structure.rs kind=struct name=FriOpeningBatch
//@item file=plonky2/src/fri/structure.rs kind=struct name=FriOpenings
//@item file=plonky2/src/fri/proof.rs kind=struct name=FriQueryStep
//@item file=plonky2/src/fri/proof.rs kind=struct name=FriInitialTreeProof
//@item file=plonky2/src/fri/proof.rs kind=struct name=FriQueryRound
//@item file=plonky2/src/fri/proof.rs kind=struct name=FriProof
//@item file=plonky2/src/fri/proof.rs kind=struct name=FriChallenges

// Prelude: PLONK proof / circuit-data types, extracted mechanically; needs field_abs, hash, fri_types.

// opaque stand-ins for types outside the verified subset (trait objects / Arc); never inspected by the verified functions
// real code: GateRef(pub Arc<dyn Gate<F, D>>); GateObj stands for the `dyn Gate` value behind the Arc
pub struct GateObj<F: RichField + Extendable<D>, const D: usize>(pub Option<F>);
pub struct GateRef<F: RichField + Extendable<D>, const D: usize>(pub GateObj<F, D>);
pub struct LookupTable(pub usize);
//@item file=plonky2/src/gates/selectors.rs kind=struct name=SelectorsInfo
//@item file=plonky2/src/plonk/circuit_data.rs kind=struct name=CircuitConfig
//@item file=plonky2/src/plonk/circuit_data.rs kind=struct name=CommonCircuitData
//@item file=plonky2/src/plonk/circuit_data.rs kind=struct name=VerifierOnlyCircuitData attr="verifier::reject_recursive_types(C)"
//@item file=plonky2/src/plonk/proof.rs kind=struct name=OpeningSet
//@item file=plonky2/src/plonk/proof.rs kind=struct name=Proof attr="verifier::reject_recursive_types(F);;verifier::reject_recursive_types(C)"
//@item file=plonky2/src/plonk/proof.rs kind=struct name=ProofWithPublicInputs attr="verifier::reject_recursive_types(F);;verifier::reject_recursive_types(C)"
//@item file=plonky2/src/plonk/proof.rs kind=struct name=ProofChallenges
//@item file=plonky2/src/plonk/vars.rs kind=struct name=EvaluationVars derive=Clone,Copy

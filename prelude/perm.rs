// Prelude: abstract sponge permutation (T8) and the overwrite-mode duplex sponge specification; needs field_abs.
pub trait PlonkyPermutation<T: Copy>: Sized + Copy {
    const RATE: usize;
    const WIDTH: usize;

    spec fn view_state(self) -> Seq<T>;

    spec fn spec_permute(s: Seq<T>) -> Seq<T>;

    proof fn ax_perm()
        ensures
            0 < Self::RATE <= Self::WIDTH,
            Self::WIDTH <= 0x1_0000,
            forall|p: Self| (#[trigger] p.view_state()).len() == Self::WIDTH,
            forall|s: Seq<T>| s.len() == Self::WIDTH ==> (#[trigger] Self::spec_permute(s)).len() == Self::WIDTH,
    ;

    // `P::new(core::iter::repeat(x))` (R13): every state element is x
    fn new_repeat(x: T) -> (r: Self)
        ensures
            r.view_state() == Seq::new(Self::WIDTH as nat, |i: int| x),
    ;

    // real code (PoseidonPermutation): self.state[start_idx..start_idx + elts.len()].copy_from_slice(elts) -- panics beyond WIDTH
    fn set_from_slice(&mut self, elts: &[T], start_idx: usize)
        requires
            start_idx + elts.len() <= Self::WIDTH,
        ensures
            final(self).view_state() == old(self).view_state().subrange(0, start_idx as int) + elts@
                + old(self).view_state().subrange(start_idx + elts.len(), Self::WIDTH as int),
    ;

    fn permute(&mut self)
        ensures
            final(self).view_state() == Self::spec_permute(old(self).view_state()),
    ;

    fn squeeze(&self) -> (r: &[T])
        ensures
            r@ == self.view_state().subrange(0, Self::RATE as int),
    ;
}

// `perm.set_from_iter(buf.drain(..), 0)` (R13, T13): the drained elements overwrite the state prefix in order; the vector is left empty
#[verifier::external_body]
pub fn vx_set_from_drain<T: Copy, P: PlonkyPermutation<T>>(perm: &mut P, buf: &mut Vec<T>, start_idx: usize)
    requires
        start_idx + old(buf).len() <= P::WIDTH,
    ensures
        final(perm).view_state() == old(perm).view_state().subrange(0, start_idx as int) + old(buf)@
            + old(perm).view_state().subrange(start_idx + old(buf).len(), P::WIDTH as int),
        final(buf)@ == Seq::<T>::empty(),
{
    unimplemented!()
}

// ---- the duplex sponge as a pure state machine ----
pub struct ChSt<T> {
    pub state: Seq<T>,
    pub inbuf: Seq<T>,
    pub outbuf: Seq<T>,
}

pub open spec fn sp_init<T: Copy, P: PlonkyPermutation<T>>(zero: T) -> ChSt<T> {
    ChSt { state: Seq::new(P::WIDTH as nat, |i: int| zero), inbuf: Seq::empty(), outbuf: Seq::empty() }
}

// overwrite mode: the buffered inputs REPLACE the first inbuf.len() state elements, then permute; all RATE outputs become available
pub open spec fn sp_duplex<T: Copy, P: PlonkyPermutation<T>>(st: ChSt<T>) -> ChSt<T> {
    let s1 = st.inbuf + st.state.subrange(st.inbuf.len() as int, P::WIDTH as int);
    let s2 = P::spec_permute(s1);
    ChSt { state: s2, inbuf: Seq::empty(), outbuf: s2.subrange(0, P::RATE as int) }
}

// absorbing one element invalidates every buffered output
pub open spec fn sp_observe<T: Copy, P: PlonkyPermutation<T>>(st: ChSt<T>, e: T) -> ChSt<T> {
    let st1 = ChSt { state: st.state, inbuf: st.inbuf.push(e), outbuf: Seq::empty() };
    if st1.inbuf.len() == P::RATE { sp_duplex::<T, P>(st1) } else { st1 }
}

pub open spec fn sp_observe_seq<T: Copy, P: PlonkyPermutation<T>>(st: ChSt<T>, es: Seq<T>) -> ChSt<T>
    decreases es.len(),
{
    if es.len() == 0 { st } else { sp_observe::<T, P>(sp_observe_seq::<T, P>(st, es.drop_last()), es.last()) }
}

pub open spec fn sp_challenge<T: Copy, P: PlonkyPermutation<T>>(st: ChSt<T>) -> (ChSt<T>, T) {
    let st1 = if st.inbuf.len() > 0 || st.outbuf.len() == 0 { sp_duplex::<T, P>(st) } else { st };
    (ChSt { state: st1.state, inbuf: st1.inbuf, outbuf: st1.outbuf.drop_last() }, st1.outbuf.last())
}

// n successive challenges: resulting state and the values in the order drawn
pub open spec fn sp_challenges<T: Copy, P: PlonkyPermutation<T>>(st: ChSt<T>, n: nat) -> (ChSt<T>, Seq<T>)
    decreases n,
{
    if n == 0 { (st, Seq::empty()) } else {
        let prev = sp_challenges::<T, P>(st, (n - 1) as nat);
        let c = sp_challenge::<T, P>(prev.0);
        (c.0, prev.1.push(c.1))
    }
}

pub open spec fn sp_wf<T: Copy, P: PlonkyPermutation<T>>(st: ChSt<T>) -> bool {
    &&& st.state.len() == P::WIDTH
    &&& st.inbuf.len() < P::RATE
    &&& st.outbuf.len() <= P::RATE
}

pub proof fn lemma_observe_seq_push<T: Copy, P: PlonkyPermutation<T>>(st: ChSt<T>, es: Seq<T>, e: T)
    ensures
        sp_observe_seq::<T, P>(st, es.push(e)) == sp_observe::<T, P>(sp_observe_seq::<T, P>(st, es), e),
{
    assert(es.push(e).drop_last() =~= es);
}

// chunking independence: absorbing a ++ b at once or in two calls reaches the same sponge state
pub proof fn lemma_observe_seq_concat<T: Copy, P: PlonkyPermutation<T>>(st: ChSt<T>, a: Seq<T>, b: Seq<T>)
    ensures
        sp_observe_seq::<T, P>(st, a + b) == sp_observe_seq::<T, P>(sp_observe_seq::<T, P>(st, a), b),
    decreases b.len(),
{
    if b.len() == 0 {
        assert(a + b =~= a);
    } else {
        lemma_observe_seq_concat::<T, P>(st, a, b.drop_last());
        assert((a + b).drop_last() =~= a + b.drop_last());
        assert((a + b).last() == b.last());
    }
}

pub proof fn lemma_observe_wf<T: Copy, P: PlonkyPermutation<T>>(st: ChSt<T>, e: T)
    requires
        sp_wf::<T, P>(st),
    ensures
        sp_wf::<T, P>(sp_observe::<T, P>(st, e)),
{
    P::ax_perm();
}

// ---- the (non-duplex) overwrite-mode hashing sponge of hash_n_to_m_no_pad ----
pub open spec fn sp_absorb_chunks<T: Copy, P: PlonkyPermutation<T>>(st: Seq<T>, inputs: Seq<T>, k: nat) -> Seq<T>
    decreases k,
{
    if k == 0 { st } else {
        let prev = sp_absorb_chunks::<T, P>(st, inputs, (k - 1) as nat);
        let lo = (k - 1) * (P::RATE as int);
        let hi = if k * (P::RATE as int) <= inputs.len() { k * (P::RATE as int) } else { inputs.len() as int };
        let chunk = inputs.subrange(lo, hi);
        P::spec_permute(chunk + prev.subrange(chunk.len() as int, P::WIDTH as int))
    }
}

pub open spec fn sp_squeeze<T: Copy, P: PlonkyPermutation<T>>(st: Seq<T>, n: nat) -> Seq<T>
    decreases n,
{
    if n == 0 || P::RATE == 0 { Seq::empty() } else if n <= P::RATE { st.subrange(0, n as int) } else {
        st.subrange(0, P::RATE as int) + sp_squeeze::<T, P>(P::spec_permute(st), (n - P::RATE) as nat)
    }
}

pub open spec fn spec_num_chunks(len: int, k: int) -> int {
    if len % k == 0 { len / k } else { len / k + 1 }
}

pub proof fn lemma_squeeze_len<T: Copy, P: PlonkyPermutation<T>>(st: Seq<T>, n: nat)
    requires
        st.len() == P::WIDTH,
    ensures
        sp_squeeze::<T, P>(st, n).len() == n,
    decreases n,
{
    P::ax_perm();
    if n > P::RATE {
        lemma_squeeze_len::<T, P>(P::spec_permute(st), (n - P::RATE) as nat);
    }
}

// Prelude: byte-level IO (util/serialization): abstract reader over the unread bytes, little-endian encodings (vstd::bytes), T4.
#[derive(Debug)]
pub struct IoError;

pub open spec fn enc_u64(x: u64) -> Seq<u8> {
    spec_u64_to_le_bytes(x)
}

pub open spec fn enc_u32(x: u32) -> Seq<u8> {
    spec_u32_to_le_bytes(x)
}

pub open spec fn enc_u16(x: u16) -> Seq<u8> {
    spec_u16_to_le_bytes(x)
}

#[verifier::external_body]
pub fn vx_u16_from_le(b: [u8; 2]) -> (r: u16)
    ensures
        r == spec_u16_from_le_bytes(b@),
{
    u16::from_le_bytes(b)
}

#[verifier::external_body]
pub fn vx_u16_to_le(x: u16) -> (r: [u8; 2])
    ensures
        r@ == spec_u16_to_le_bytes(x),
{
    x.to_le_bytes()
}

// `u64::from_le_bytes` / `to_le_bytes` (array length is a const expression Verus cannot name): T4
#[verifier::external_body]
pub fn vx_u64_from_le(b: [u8; 8]) -> (r: u64)
    ensures
        r == spec_u64_from_le_bytes(b@),
{
    u64::from_le_bytes(b)
}

#[verifier::external_body]
pub fn vx_u64_to_le(x: u64) -> (r: [u8; 8])
    ensures
        r@ == spec_u64_to_le_bytes(x),
{
    x.to_le_bytes()
}

#[verifier::external_body]
pub fn vx_u32_from_le(b: [u8; 4]) -> (r: u32)
    ensures
        r == spec_u32_from_le_bytes(b@),
{
    u32::from_le_bytes(b)
}

#[verifier::external_body]
pub fn vx_u32_to_le(x: u32) -> (r: [u8; 4])
    ensures
        r@ == spec_u32_to_le_bytes(x),
{
    x.to_le_bytes()
}

pub trait Read: Sized {
    // the bytes not yet consumed
    spec fn rest(&self) -> Seq<u8>;

    fn read_exact(&mut self, bytes: &mut [u8]) -> (r: Result<(), IoError>)
        ensures
            final(bytes).len() == old(bytes).len(),
            r.is_ok() <==> old(self).rest().len() >= old(bytes).len(),
            r.is_ok() ==> final(bytes)@ == old(self).rest().subrange(0, old(bytes).len() as int)
                && final(self).rest() == old(self).rest().subrange(old(bytes).len() as int, old(self).rest().len() as int),
            r.is_err() ==> final(self).rest() == old(self).rest(),
    ;
}

pub trait Write: Sized {
    // everything written so far
    spec fn written(&self) -> Seq<u8>;

    fn write_all(&mut self, bytes: &[u8]) -> (r: Result<(), IoError>)
        ensures
            r.is_ok(),
            final(self).written() == old(self).written() + bytes@,
    ;
}

// Prelude: the specification of the gate-constraint combination shared by the native evaluator (contracts/C02/gate_constraints.vspec) and the
// in-circuit one (contracts/C07/gate_constraints_circuit.vspec).
pub uninterp spec fn spec_compute_filter<K: Field>(row: usize, group_range: Range<usize>, s: K, many_selector: bool) -> K;


// constraint j of a gate at `row`: filter(row, group, constants[selector_index], num_selectors > 1) * unfiltered_j, where the gate's own evaluator sees
// the constants WITHOUT the selector and lookup-selector prefixes
pub open spec fn apply_filter<F: RichField + Extendable<D>, const D: usize>(
    unf: Seq<F::Extension>, s: F::Extension, row: usize, group_range: Range<usize>, num_selectors: usize,
) -> Seq<F::Extension> {
    let filter = spec_compute_filter::<F::Extension>(row, group_range, s, num_selectors > 1);
    Seq::new(unf.len(), |j: int| filter.mul_spec(unf[j]))
}

pub open spec fn strip_prefix<T>(consts: Seq<T>, num_selectors: usize, num_lookup_selectors: usize) -> Seq<T> {
    consts.subrange(num_selectors + num_lookup_selectors, consts.len() as int)
}

pub uninterp spec fn spec_obj_unfiltered<F: RichField + Extendable<D>, const D: usize>(g: GateObj<F, D>, consts: Seq<F::Extension>, wires: Seq<F::Extension>, pih: HashOut<F>) -> Seq<F::Extension>;


pub open spec fn gate_filtered<F: RichField + Extendable<D>, const D: usize>(cd: CommonCircuitData<F, D>, consts: Seq<F::Extension>, wires: Seq<F::Extension>, pih: HashOut<F>, i: int) -> Seq<F::Extension> {
    let s = cd.selectors_info.selector_indices[i];
    apply_filter::<F, D>(spec_obj_unfiltered::<F, D>(cd.gates[i].0, strip_prefix(consts, cd.selectors_info.groups.len(), cd.num_lookup_selectors), wires, pih),
        consts[s as int], i as usize, cd.selectors_info.groups[s as int], cd.selectors_info.groups.len())
}

// sum over the first `upto` gates of their j-th filtered constraint (gates with fewer constraints contribute nothing to slot j)
pub open spec fn gate_sum<F: RichField + Extendable<D>, const D: usize>(cd: CommonCircuitData<F, D>, consts: Seq<F::Extension>, wires: Seq<F::Extension>, pih: HashOut<F>, upto: int, j: int) -> F::Extension
    decreases upto,
{
    if upto <= 0 {
        F::Extension::ZERO
    } else {
        let prev = gate_sum::<F, D>(cd, consts, wires, pih, upto - 1, j);
        let f = gate_filtered::<F, D>(cd, consts, wires, pih, upto - 1);
        if j < f.len() { prev.add_spec(f[j]) } else { prev }
    }
}

// well-formedness of the common data as far as the gate combination reads them (CommonCircuitData built by CircuitBuilder::build)
pub open spec fn common_gates_ok<F: RichField + Extendable<D>, const D: usize>(cd: CommonCircuitData<F, D>, consts: Seq<F::Extension>, wires: Seq<F::Extension>, pih: HashOut<F>) -> bool {
    &&& cd.selectors_info.selector_indices.len() == cd.gates.len()
    &&& forall|i: int| 0 <= i < cd.gates.len() ==> (#[trigger] cd.selectors_info.selector_indices[i]) < cd.selectors_info.groups.len()
    &&& forall|i: int| 0 <= i < cd.gates.len() ==> (#[trigger] cd.selectors_info.selector_indices[i]) < consts.len()
    &&& cd.selectors_info.groups.len() + cd.num_lookup_selectors <= consts.len()
    &&& forall|i: int| 0 <= i < cd.gates.len() ==> (#[trigger] gate_filtered::<F, D>(cd, consts, wires, pih, i)).len() <= cd.num_gate_constraints
}


// Prelude: obligations replacing unchecked assumptions / assertions, and specs of std integer methods (T4, R9).
pub fn util_assume(p: bool)
    requires p,
{
}

pub const fn vx_assert(p: bool)
    requires p,
{
}

pub assume_specification[ u64::overflowing_sub ](a: u64, b: u64) -> (r: (u64, bool))
    ensures
        r.1 == ((a as int) < (b as int)),
        r.0 as int == (if (a as int) < (b as int) { a as int - b as int + 0x1_0000_0000_0000_0000 } else { a as int - b as int }),
;

pub assume_specification[ u64::overflowing_add ](a: u64, b: u64) -> (r: (u64, bool))
    ensures
        r.1 == ((a as int) + (b as int) >= 0x1_0000_0000_0000_0000),
        r.0 as int == (if (a as int) + (b as int) >= 0x1_0000_0000_0000_0000 { a as int + b as int - 0x1_0000_0000_0000_0000 } else { a as int + b as int }),
;

pub assume_specification[ u128::overflowing_add ](a: u128, b: u128) -> (r: (u128, bool))
    ensures
        r.1 == ((a as int) + (b as int) >= 0x1_0000_0000_0000_0000_0000_0000_0000_0000),
        r.0 as int == (if (a as int) + (b as int) >= 0x1_0000_0000_0000_0000_0000_0000_0000_0000 { a as int + b as int - 0x1_0000_0000_0000_0000_0000_0000_0000_0000 } else { a as int + b as int }),
;

pub assume_specification[ u128::overflowing_sub ](a: u128, b: u128) -> (r: (u128, bool))
    ensures
        r.1 == ((a as int) < (b as int)),
        r.0 as int == (if (a as int) < (b as int) { a as int - b as int + 0x1_0000_0000_0000_0000_0000_0000_0000_0000 } else { a as int - b as int }),
;

pub fn vx_min(a: usize, b: usize) -> (r: usize)
    ensures
        r == (if a <= b { a } else { b }),
{
    if a <= b { a } else { b }
}

#[derive(Debug)]
pub struct VxError;

#[verifier::external_body]
pub fn vx_err() -> (r: VxError) {
    VxError
}

// T12: a Vec of a non-zero-sized element type holds at most isize::MAX elements (Rust allocation guarantee)
#[verifier::external_body]
pub proof fn axiom_vec_len_bound<T>(v: &Vec<T>)
    ensures
        v.len() <= 0x7FFF_FFFF_FFFF_FFFF,
{
}

// T11: `#[derive(Clone)]` returns a value equal to the original
#[verifier::external_body]
pub fn vx_clone<T>(x: &T) -> (r: T)
    ensures
        r == *x,
{
    unimplemented!()
}

// slice::chunks(k) (T4): number of chunks and the i-th chunk; `chunks(0)` panics, hence `k > 0`
#[verifier::external_body]
pub fn vx_num_chunks(len: usize, k: usize) -> (r: usize)
    requires
        k > 0,
    ensures
        r as int == (if len as int % k as int == 0 { len as int / k as int } else { len as int / k as int + 1 }),
{
    if len % k == 0 { len / k } else { len / k + 1 }
}

#[verifier::external_body]
pub fn vx_chunk<T>(s: &[T], k: usize, i: usize) -> (r: &[T])
    requires
        k > 0,
        i * k < s.len(),
    ensures
        r@ == s@.subrange(i * k, if (i + 1) * k <= s.len() { (i + 1) * k } else { s.len() as int }),
{
    let hi = if (i + 1) * k <= s.len() { (i + 1) * k } else { s.len() };
    &s[i * k..hi]
}

// <[T; N]>::copy_from_slice (T4): panics on a length mismatch
#[verifier::external_body]
pub fn vx_copy_from_slice<T: Copy, const N: usize>(dst: &mut [T; N], src: &[T])
    requires
        src.len() == N,
    ensures
        final(dst)@ == src@,
{
    dst.copy_from_slice(src)
}

// `s[..4].try_into().unwrap()` for a slice of at least 4 elements (T4)
#[verifier::external_body]
pub fn vx_take4<T: Copy>(s: &[T]) -> (r: [T; 4])
    requires
        s.len() >= 4,
    ensures
        r@ == s@.subrange(0, 4),
{
    s[..4].try_into().unwrap()
}

// <[T]>::contains (T4)
pub assume_specification<T: PartialEq>[ <[T]>::contains ](s: &[T], x: &T) -> (r: bool)
    ensures
        <T as vstd::std_specs::cmp::PartialEqSpec>::obeys_eq_spec() ==> r == (exists|i: int| 0 <= i < s.len() && #[trigger] vstd::std_specs::cmp::PartialEqSpec::eq_spec(&s[i], x)),
;

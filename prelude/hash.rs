// Prelude: abstract hasher (T8); needs field_abs, perm.  hash_or_noop / hash_no_pad / two_to_one are uninterpreted specification
// functions of their arguments; nothing is assumed about them except that they are functions.
pub trait GenericHashOut<F: RichField>: Sized + Copy + PartialEq {
    spec fn elems(self) -> Seq<F>;

    proof fn ax_eq()
        ensures
            Self::obeys_eq_spec(),
            forall|a: Self, b: Self| #[trigger] a.eq_spec(&b) == (a == b),
    ;

    fn to_vec(&self) -> (r: Vec<F>)
        ensures
            r@ == self.elems(),
    ;
}

pub trait Hasher<F: RichField>: Sized + Copy {
    type Hash: GenericHashOut<F>;

    type Permutation: PlonkyPermutation<F>;

    spec fn spec_hash_no_pad(input: Seq<F>) -> Self::Hash;

    spec fn spec_hash_or_noop(input: Seq<F>) -> Self::Hash;

    spec fn spec_two_to_one(left: Self::Hash, right: Self::Hash) -> Self::Hash;

    fn hash_no_pad(input: &[F]) -> (r: Self::Hash)
        ensures
            r == Self::spec_hash_no_pad(input@),
    ;

    fn hash_or_noop(inputs: &[F]) -> (r: Self::Hash)
        ensures
            r == Self::spec_hash_or_noop(inputs@),
    ;

    fn two_to_one(left: Self::Hash, right: Self::Hash) -> (r: Self::Hash)
        ensures
            r == Self::spec_two_to_one(left, right),
    ;
}

//@item file=plonky2/src/hash/hash_types.rs kind=const name=NUM_HASH_OUT_ELTS
//@item file=plonky2/src/hash/hash_types.rs kind=struct name=HashOut derive=Clone,Copy

// HashOut is a plain array of field elements compared element-wise (derive(PartialEq)); T11
impl<F: RichField> vstd::std_specs::cmp::PartialEqSpecImpl for HashOut<F> {
    open spec fn obeys_eq_spec() -> bool {
        true
    }

    open spec fn eq_spec(&self, other: &Self) -> bool {
        *self == *other
    }
}

impl<F: RichField> PartialEq for HashOut<F> {
    #[verifier::external_body]
    fn eq(&self, other: &Self) -> (r: bool)
    {
        unimplemented!()
    }
}

impl<F: RichField> GenericHashOut<F> for HashOut<F> {
    open spec fn elems(self) -> Seq<F> {
        self.elements@
    }

    proof fn ax_eq() {
    }

    #[verifier::external_body]
    fn to_vec(&self) -> (r: Vec<F>) {
        unimplemented!()
    }
}

// Generic configuration (plonk/config.rs): only the associated types are needed by the verified functions.
pub trait GenericConfig<const D: usize>: Sized {
    type F: RichField + Extendable<D>;
    type Hasher: Hasher<Self::F>;
    type InnerHasher: Hasher<Self::F, Hash = HashOut<Self::F>>;
}

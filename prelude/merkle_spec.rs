// Prelude: specification of Merkle path evaluation (shared by C12 / C05 / C03 / C18 units); needs field_abs, hash.
// ---- specification: state of the walk after k siblings (digest, height, next leaf-data index) ----
pub open spec fn walk<F: RichField, H: Hasher<F>>(
    leaf_data: Seq<Vec<F>>, leaf_heights: Seq<usize>, leaf_index: nat, sib: Seq<H::Hash>, k: nat,
) -> (H::Hash, int, int)
    decreases k,
{
    if k == 0 {
        (H::spec_hash_or_noop(leaf_data[0]@), leaf_heights[0] as int, 1)
    } else {
        let prev = walk::<F, H>(leaf_data, leaf_heights, leaf_index, sib, (k - 1) as nat);
        let bit = (leaf_index / pow2((k - 1) as nat)) % 2;
        let d1 = if bit == 1 { H::spec_two_to_one(sib[k - 1], prev.0) } else { H::spec_two_to_one(prev.0, sib[k - 1]) };
        let h1 = prev.1 - 1;
        if prev.2 < leaf_heights.len() && h1 == leaf_heights[prev.2] as int {
            (H::spec_hash_or_noop(d1.elems() + leaf_data[prev.2]@), h1, prev.2 + 1)
        } else {
            (d1, h1, prev.2)
        }
    }
}

// single-leaf fold: the textbook Merkle path evaluation
pub open spec fn fold<F: RichField, H: Hasher<F>>(leaf: H::Hash, leaf_index: nat, sib: Seq<H::Hash>, k: nat) -> H::Hash
    decreases k,
{
    if k == 0 {
        leaf
    } else {
        let prev = fold::<F, H>(leaf, leaf_index, sib, (k - 1) as nat);
        if (leaf_index / pow2((k - 1) as nat)) % 2 == 1 { H::spec_two_to_one(sib[k - 1], prev) } else { H::spec_two_to_one(prev, sib[k - 1]) }
    }
}

pub proof fn lemma_walk_height<F: RichField, H: Hasher<F>>(leaf_data: Seq<Vec<F>>, leaf_heights: Seq<usize>, leaf_index: nat, sib: Seq<H::Hash>, k: nat)
    ensures
        walk::<F, H>(leaf_data, leaf_heights, leaf_index, sib, k).1 == leaf_heights[0] as int - k,
        1 <= walk::<F, H>(leaf_data, leaf_heights, leaf_index, sib, k).2,
    decreases k,
{
    if k > 0 {
        lemma_walk_height::<F, H>(leaf_data, leaf_heights, leaf_index, sib, (k - 1) as nat);
    }
}

// with a single leaf whose height equals the path length the walk is the textbook fold
pub proof fn lemma_walk_single<F: RichField, H: Hasher<F>>(leaf_data: Seq<Vec<F>>, leaf_heights: Seq<usize>, leaf_index: nat, sib: Seq<H::Hash>, k: nat)
    requires
        leaf_data.len() == 1,
        leaf_heights.len() == 1,
    ensures
        walk::<F, H>(leaf_data, leaf_heights, leaf_index, sib, k).0 == fold::<F, H>(H::spec_hash_or_noop(leaf_data[0]@), leaf_index, sib, k),
        walk::<F, H>(leaf_data, leaf_heights, leaf_index, sib, k).2 == 1,
    decreases k,
{
    if k > 0 {
        lemma_walk_single::<F, H>(leaf_data, leaf_heights, leaf_index, sib, (k - 1) as nat);
    }
}

pub proof fn lemma_shift_step(x: usize, idx0: nat, k: nat)
    requires
        x as nat == idx0 / pow2(k),
    ensures
        (x >> 1) as nat == idx0 / pow2(k + 1),
        (x & 1) as nat == (idx0 / pow2(k)) % 2,
        (x & 1) == 0 || (x & 1) == 1,
{
    assert(x >> 1 == x / 2) by (bit_vector);
    assert(x & 1 == x % 2) by (bit_vector);
    lemma_pow2_pos(k);
    vstd::arithmetic::power2::lemma_pow2_unfold(k + 1);
    vstd::arithmetic::div_mod::lemma_div_denominator(idx0 as int, pow2(k) as int, 2);
}


// Prelude for gate units (C07); needs field_abs, hash(plonk_types for HashOut).
// Packed fields are treated as the same abstract commutative ring as scalar fields (lane-wise operations): a packed evaluator and
// the extension evaluator are both compared with ONE ring-generic specification expression.
pub trait PackedField: Field {
}

// strided views used by the packed/base evaluators: only indexing is used by the gates
pub struct PackedStridedView<P: PackedField> {
    pub elems: Vec<P>,
}

impl<P: PackedField> PackedStridedView<P> {
    // `view[i]` (Index impl; debug-asserts nothing, panics on out-of-range like a slice)
    #[verifier::external_body]
    pub fn vx_get(&self, i: usize) -> (r: P)
        requires
            i < self.elems.len(),
        ensures
            r == self.elems[i as int],
    {
        unimplemented!()
    }
}

pub struct EvaluationVarsBasePacked<P: PackedField> {
    pub local_constants: PackedStridedView<P>,
    pub local_wires: PackedStridedView<P>,
}

// constraint consumer of the packed evaluators: yields constraints in order
pub struct StridedConstraintConsumer<P: PackedField> {
    pub out: Ghost<Seq<P>>,
}

impl<P: PackedField> StridedConstraintConsumer<P> {
    #[verifier::external_body]
    pub fn one(&mut self, constraint: P)
        ensures
            final(self).out@ == old(self).out@.push(constraint),
    {
        unimplemented!()
    }
}

// ---- in-circuit evaluation: targets denote field-extension values (under any satisfying assignment) ----
#[derive(Clone, Copy)]
pub struct ExtensionTarget<const D: usize>(pub [usize; D]);

pub uninterp spec fn den<F: RichField + Extendable<D>, const D: usize>(t: ExtensionTarget<D>) -> F::Extension;

pub struct EvaluationTargets<const D: usize> {
    pub local_constants: Vec<ExtensionTarget<D>>,
    pub local_wires: Vec<ExtensionTarget<D>>,
}

pub struct CircuitBuilder<F: RichField + Extendable<D>, const D: usize> {
    pub phantom: Ghost<Option<F>>,
}

impl<F: RichField + Extendable<D>, const D: usize> CircuitBuilder<F, D> {
    // assumed builder contracts: the returned target denotes the stated combination of the denotations (T10d)
    #[verifier::external_body]
    pub fn mul_extension(&mut self, a: ExtensionTarget<D>, b: ExtensionTarget<D>) -> (r: ExtensionTarget<D>)
        ensures
            den::<F, D>(r) == den::<F, D>(a).mul_spec(den::<F, D>(b)),
    {
        unimplemented!()
    }

    #[verifier::external_body]
    pub fn mul_many_extension3(&mut self, a: ExtensionTarget<D>, b: ExtensionTarget<D>, c: ExtensionTarget<D>) -> (r: ExtensionTarget<D>)
        ensures
            den::<F, D>(r) == den::<F, D>(a).mul_spec(den::<F, D>(b)).mul_spec(den::<F, D>(c)),
    {
        unimplemented!()
    }

    // a * b + c
    #[verifier::external_body]
    pub fn mul_add_extension(&mut self, a: ExtensionTarget<D>, b: ExtensionTarget<D>, c: ExtensionTarget<D>) -> (r: ExtensionTarget<D>)
        ensures
            den::<F, D>(r) == den::<F, D>(a).mul_spec(den::<F, D>(b)).add_spec(den::<F, D>(c)),
    {
        unimplemented!()
    }

    #[verifier::external_body]
    pub fn sub_extension(&mut self, a: ExtensionTarget<D>, b: ExtensionTarget<D>) -> (r: ExtensionTarget<D>)
        ensures
            den::<F, D>(r) == den::<F, D>(a).sub_spec(den::<F, D>(b)),
    {
        unimplemented!()
    }

    #[verifier::external_body]
    pub fn add_extension(&mut self, a: ExtensionTarget<D>, b: ExtensionTarget<D>) -> (r: ExtensionTarget<D>)
        ensures
            den::<F, D>(r) == den::<F, D>(a).add_spec(den::<F, D>(b)),
    {
        unimplemented!()
    }
}

pub open spec fn dens<F: RichField + Extendable<D>, const D: usize>(ts: Seq<ExtensionTarget<D>>) -> Seq<F::Extension> {
    Seq::new(ts.len(), |i: int| den::<F, D>(ts[i]))
}

// packed value times a scalar of its lane type (`P *= P::Scalar`, `P * P::Scalar`): lane-wise, modelled by an uninterpreted function
pub trait PackedScalar: PackedField {
    type Scalar: Field;

    spec fn spec_scale(self, s: Self::Scalar) -> Self;

    fn scalar_mul(self, s: Self::Scalar) -> (r: Self)
        ensures
            r == self.spec_scale(s),
    ;
}

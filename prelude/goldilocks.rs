// Prelude: the Goldilocks modulus as a mathematical integer and the residue view.
pub open spec fn P() -> int {
    0xFFFF_FFFF_0000_0001
}

pub open spec fn val(x: u64) -> int {
    (x as int) % P()
}

pub open spec fn pow2_64() -> int {
    0x1_0000_0000_0000_0000
}

pub proof fn lemma_mod_shift(x: int, k: int)
    ensures
        (x + k * P()) % P() == x % P(),
{
    vstd::arithmetic::div_mod::lemma_mod_multiples_vanish(k, x, P());
}

// Prelude: the Fiat-Shamir transcript as a pure function of the statement and the prover messages, written in the order the
// property states it (C04).  Needs perm, hash, fri_types, plonk_types.  `P` is the sponge permutation of the challenger's hasher.
pub open spec fn fe<F: Field>(n: int) -> F {
    F::spec_from_u64(n as u64)
}

pub open spec fn flat_hashes<F: RichField, OH: Hasher<F>>(hs: Seq<OH::Hash>) -> Seq<F>
    decreases hs.len(),
{
    if hs.len() == 0 { Seq::empty() } else { flat_hashes::<F, OH>(hs.drop_last()) + hs.last().elems() }
}

pub open spec fn flat_ext<F: RichField + Extendable<D>, const D: usize>(xs: Seq<F::Extension>) -> Seq<F>
    decreases xs.len(),
{
    if xs.len() == 0 { Seq::empty() } else { flat_ext::<F, D>(xs.drop_last()) + xs.last().spec_basefield() }
}

// an extension challenge is D base challenges taken as coordinates
pub open spec fn sp_ext_challenge<F: RichField + Extendable<D>, P: PlonkyPermutation<F>, const D: usize>(st: ChSt<F>) -> (ChSt<F>, F::Extension) {
    let c = sp_challenges::<F, P>(st, D as nat);
    (c.0, <F::Extension as FieldExtension<D>>::spec_from_basefield(c.1))
}

pub open spec fn sp_ext_challenges<F: RichField + Extendable<D>, P: PlonkyPermutation<F>, const D: usize>(st: ChSt<F>, n: nat) -> (ChSt<F>, Seq<F::Extension>)
    decreases n,
{
    if n == 0 { (st, Seq::empty()) } else {
        let prev = sp_ext_challenges::<F, P, D>(st, (n - 1) as nat);
        let c = sp_ext_challenge::<F, P, D>(prev.0);
        (c.0, prev.1.push(c.1))
    }
}

// ---- statement: every FRI and degree parameter ----
pub open spec fn tr_usizes<F: Field>(v: Seq<usize>) -> Seq<F> {
    Seq::new(v.len(), |i: int| fe::<F>(v[i] as int))
}

pub open spec fn tr_strategy<F: Field>(s: FriReductionStrategy) -> Seq<F> {
    match s {
        FriReductionStrategy::Fixed(v) => seq![F::ZERO] + tr_usizes::<F>(v@),
        FriReductionStrategy::ConstantArityBits(a, f) => seq![F::ONE, fe::<F>(a as int), fe::<F>(f as int)],
        FriReductionStrategy::MinSize(o) => seq![F::TWO, fe::<F>(if o.is_some() { o.unwrap() as int } else { 0 })],
    }
}

pub open spec fn tr_fri_config<F: RichField, P: PlonkyPermutation<F>>(st: ChSt<F>, c: FriConfig) -> ChSt<F> {
    let s1 = sp_observe::<F, P>(st, fe::<F>(c.rate_bits as int));
    let s2 = sp_observe::<F, P>(s1, fe::<F>(c.cap_height as int));
    let s3 = sp_observe::<F, P>(s2, fe::<F>(c.proof_of_work_bits as int));
    let s4 = sp_observe_seq::<F, P>(s3, tr_strategy::<F>(c.reduction_strategy));
    sp_observe::<F, P>(s4, fe::<F>(c.num_query_rounds as int))
}

pub open spec fn tr_fri_params<F: RichField, P: PlonkyPermutation<F>>(st: ChSt<F>, p: FriParams) -> ChSt<F> {
    let s1 = tr_fri_config::<F, P>(st, p.config);
    let s2 = sp_observe::<F, P>(s1, fe::<F>(if p.hiding { 1 } else { 0 }));
    let s3 = sp_observe::<F, P>(s2, fe::<F>(p.degree_bits as int));
    sp_observe_seq::<F, P>(s3, tr_usizes::<F>(p.reduction_arity_bits@))
}

// ---- FRI part: openings, then per commit-phase cap: absorb the cap, THEN draw its beta ----
pub open spec fn tr_openings<F: RichField + Extendable<D>, P: PlonkyPermutation<F>, const D: usize>(st: ChSt<F>, batches: Seq<FriOpeningBatch<F, D>>) -> ChSt<F>
    decreases batches.len(),
{
    if batches.len() == 0 { st } else {
        sp_observe_seq::<F, P>(tr_openings::<F, P, D>(st, batches.drop_last()), flat_ext::<F, D>(batches.last().values@))
    }
}

pub open spec fn tr_betas<F: RichField + Extendable<D>, OH: Hasher<F>, P: PlonkyPermutation<F>, const D: usize>(
    st: ChSt<F>, caps: Seq<MerkleCap<F, OH>>, k: nat,
) -> (ChSt<F>, Seq<F::Extension>)
    decreases k,
{
    if k == 0 { (st, Seq::empty()) } else {
        let prev = tr_betas::<F, OH, P, D>(st, caps, (k - 1) as nat);
        let s1 = sp_observe_seq::<F, P>(prev.0, flat_hashes::<F, OH>(caps[k - 1].0@));
        let c = sp_ext_challenge::<F, P, D>(s1);
        (c.0, prev.1.push(c.1))
    }
}

// padding used when one circuit verifies proofs of several degrees: n times (absorb a zero cap, draw and discard a beta)
pub open spec fn tr_pad_caps<F: RichField + Extendable<D>, P: PlonkyPermutation<F>, const D: usize>(st: ChSt<F>, n: nat, cap_len: nat) -> ChSt<F>
    decreases n,
{
    if n == 0 { st } else {
        let prev = tr_pad_caps::<F, P, D>(st, (n - 1) as nat, cap_len);
        sp_ext_challenge::<F, P, D>(sp_observe_seq::<F, P>(prev, Seq::new(cap_len, |i: int| F::ZERO))).0
    }
}

pub open spec fn tr_pad_poly<F: RichField + Extendable<D>, P: PlonkyPermutation<F>, const D: usize>(st: ChSt<F>, n: nat) -> ChSt<F>
    decreases n,
{
    if n == 0 { st } else {
        sp_observe_seq::<F, P>(tr_pad_poly::<F, P, D>(st, (n - 1) as nat), <F::Extension as Field>::ZERO.spec_basefield())
    }
}

pub open spec fn tr_indices<F: RichField, P: PlonkyPermutation<F>>(st: ChSt<F>, n: nat, lde_size: usize) -> (ChSt<F>, Seq<usize>)
    decreases n,
{
    if n == 0 { (st, Seq::empty()) } else {
        let prev = tr_indices::<F, P>(st, (n - 1) as nat, lde_size);
        let c = sp_challenge::<F, P>(prev.0);
        (c.0, prev.1.push(((c.1.spec_canonical_u64() as usize) % lde_size) as usize))
    }
}

pub struct FriTr<F: RichField + Extendable<D>, const D: usize> {
    pub st: ChSt<F>,
    pub alpha: F::Extension,
    pub betas: Seq<F::Extension>,
    pub pow_response: F,
    pub indices: Seq<usize>,
}

pub open spec fn tr_fri<F: RichField + Extendable<D>, OH: Hasher<F>, P: PlonkyPermutation<F>, const D: usize>(
    st: ChSt<F>, caps: Seq<MerkleCap<F, OH>>, final_poly: Seq<F::Extension>, pow_witness: F, degree_bits: usize, config: FriConfig,
    final_poly_coeff_len: Option<usize>, max_num_query_steps: Option<usize>,
) -> FriTr<F, D> {
    let lde_size = (1usize << ((degree_bits + config.rate_bits) as usize)) as usize;
    let a = sp_ext_challenge::<F, P, D>(st);                                   // alpha: after the openings
    let b = tr_betas::<F, OH, P, D>(a.0, caps, caps.len());                    // each cap before its beta
    let s1 = if max_num_query_steps.is_some() && max_num_query_steps.unwrap() > caps.len() {
        tr_pad_caps::<F, P, D>(b.0, (max_num_query_steps.unwrap() - caps.len()) as nat, (((1usize << config.cap_height) as usize) * 4) as nat)
    } else { b.0 };
    let s2 = sp_observe_seq::<F, P>(s1, flat_ext::<F, D>(final_poly));          // final polynomial coefficients
    let s3 = if final_poly_coeff_len.is_some() && final_poly_coeff_len.unwrap() > final_poly.len() {
        tr_pad_poly::<F, P, D>(s2, (final_poly_coeff_len.unwrap() - final_poly.len()) as nat)
    } else { s2 };
    let s4 = sp_observe::<F, P>(s3, pow_witness);                              // proof-of-work witness
    let r = sp_challenge::<F, P>(s4);                                           // pow response
    let q = tr_indices::<F, P>(r.0, config.num_query_rounds as nat, lde_size);  // query indices, reduced mod lde_size
    FriTr { st: q.0, alpha: a.1, betas: b.1, pow_response: r.1, indices: q.1 }
}

// ---- the PLONK transcript, in the order of the property statement ----
pub open spec fn plonk_challenges_ok<F: RichField + Extendable<D>, C: GenericConfig<D, F = F>, const D: usize>(
    ch: ProofChallenges<F, D>, pi_hash: HashOut<F>, proof: Proof<F, C, D>, fri_openings: FriOpenings<F, D>,
    circuit_digest: <C::Hasher as Hasher<F>>::Hash, cd: CommonCircuitData<F, D>,
) -> bool {
    let n = cd.config.num_challenges as nat;
    let s0 = sp_init::<F, <C::Hasher as Hasher<F>>::Permutation>(F::ZERO);
    let s1 = tr_fri_params::<F, <C::Hasher as Hasher<F>>::Permutation>(s0, cd.fri_params);                       // FRI + degree parameters
    let s2 = sp_observe_seq::<F, <C::Hasher as Hasher<F>>::Permutation>(s1, circuit_digest.elems());            // circuit digest
    let s3 = sp_observe_seq::<F, <C::Hasher as Hasher<F>>::Permutation>(s2, pi_hash.elems());                   // public-input hash
    let s4 = sp_observe_seq::<F, <C::Hasher as Hasher<F>>::Permutation>(s3, flat_hashes::<F, C::Hasher>(proof.wires_cap.0@));   // wires cap
    let b = sp_challenges::<F, <C::Hasher as Hasher<F>>::Permutation>(s4, n);                                    // betas
    let g = sp_challenges::<F, <C::Hasher as Hasher<F>>::Permutation>(b.0, n);                                   // gammas
    let d = if cd.num_lookup_polys != 0 { sp_challenges::<F, <C::Hasher as Hasher<F>>::Permutation>(g.0, 2 * n) } else { (g.0, Seq::empty()) };
    let s5 = sp_observe_seq::<F, <C::Hasher as Hasher<F>>::Permutation>(d.0, flat_hashes::<F, C::Hasher>(proof.plonk_zs_partial_products_cap.0@));
    let a = sp_challenges::<F, <C::Hasher as Hasher<F>>::Permutation>(s5, n);                                    // alphas
    let s6 = sp_observe_seq::<F, <C::Hasher as Hasher<F>>::Permutation>(a.0, flat_hashes::<F, C::Hasher>(proof.quotient_polys_cap.0@));
    let z = sp_ext_challenge::<F, <C::Hasher as Hasher<F>>::Permutation, D>(s6);                                 // zeta
    let s7 = tr_openings::<F, <C::Hasher as Hasher<F>>::Permutation, D>(z.0, fri_openings.batches@);             // openings
    let f = tr_fri::<F, C::Hasher, <C::Hasher as Hasher<F>>::Permutation, D>(s7, proof.opening_proof.commit_phase_merkle_caps@,
        proof.opening_proof.final_poly.coeffs@, proof.opening_proof.pow_witness, cd.fri_params.degree_bits, cd.config.fri_config, None, None);
    &&& ch.plonk_betas@ == b.1
    &&& ch.plonk_gammas@ == g.1
    &&& ch.plonk_deltas@ == (if cd.num_lookup_polys != 0 { b.1 + g.1 + d.1 } else { Seq::empty() })
    &&& ch.plonk_alphas@ == a.1
    &&& ch.plonk_zeta == z.1
    &&& ch.fri_challenges.fri_alpha == f.alpha
    &&& ch.fri_challenges.fri_betas@ == f.betas
    &&& ch.fri_challenges.fri_pow_response == f.pow_response
    &&& ch.fri_challenges.fri_query_indices@ == f.indices
}

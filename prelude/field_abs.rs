// Prelude (T6): abstract field.  Generic code over `F: Field` is verified against this signature: a commutative ring
// with identity and multiplicative inverses, where `==` is mathematical equality of field elements.  The operator
// results are the specification functions `add_spec / sub_spec / mul_spec / neg_spec` themselves (uninterpreted for an
// abstract `F`), so a skeleton proof says which values reach which operation without interpreting them.
// That GoldilocksField refines this signature modulo `val(x) = x mod P` is what the C14 units prove for + - * neg.
pub trait Field: Sized + Copy + PartialEq + Add<Output = Self> + Sub<Output = Self> + Mul<Output = Self> + Neg<Output = Self> {
    const ZERO: Self;
    const ONE: Self;
    const TWO: Self;
    const NEG_ONE: Self;
    const MULTIPLICATIVE_GROUP_GENERATOR: Self;
    const TWO_ADICITY: usize;

    spec fn inv(self) -> Self;

    spec fn spec_pow(self, e: nat) -> Self;

    spec fn spec_primitive_root_of_unity(n_log: usize) -> Self;

    spec fn spec_from_u64(n: u64) -> Self;

    // operators obey their specification functions and have no precondition
    proof fn ax_ops()
        ensures
            Self::obeys_add_spec(),
            Self::obeys_sub_spec(),
            Self::obeys_mul_spec(),
            Self::obeys_neg_spec(),
            Self::obeys_eq_spec(),
            forall|a: Self, b: Self| #[trigger] a.add_req(b),
            forall|a: Self, b: Self| #[trigger] a.sub_req(b),
            forall|a: Self, b: Self| #[trigger] a.mul_req(b),
            forall|a: Self| #[trigger] a.neg_req(),
            forall|a: Self, b: Self| #[trigger] a.eq_spec(&b) == (a == b),
            forall|a: Self, b: Self| #[trigger] cloned(a, b) ==> a == b,
    ;

    // commutative ring with identity, inverses of non-zero elements, exponentiation
    proof fn ax_ring()
        ensures
            forall|a: Self, b: Self| #[trigger] a.add_spec(b) == b.add_spec(a),
            forall|a: Self, b: Self, c: Self| #[trigger] a.add_spec(b).add_spec(c) == a.add_spec(b.add_spec(c)),
            forall|a: Self| #[trigger] a.add_spec(Self::ZERO) == a,
            forall|a: Self| #[trigger] a.add_spec(a.neg_spec()) == Self::ZERO,
            forall|a: Self, b: Self| #[trigger] a.sub_spec(b) == a.add_spec(b.neg_spec()),
            forall|a: Self, b: Self| #[trigger] a.mul_spec(b) == b.mul_spec(a),
            forall|a: Self, b: Self, c: Self| #[trigger] a.mul_spec(b).mul_spec(c) == a.mul_spec(b.mul_spec(c)),
            forall|a: Self| #[trigger] a.mul_spec(Self::ONE) == a,
            forall|a: Self, b: Self, c: Self| #[trigger] a.mul_spec(b.add_spec(c)) == a.mul_spec(b).add_spec(a.mul_spec(c)),
            forall|a: Self| a != Self::ZERO ==> #[trigger] a.mul_spec(a.inv()) == Self::ONE,
            Self::ONE != Self::ZERO,
            Self::TWO == Self::ONE.add_spec(Self::ONE),
            Self::NEG_ONE == Self::ONE.neg_spec(),
            forall|a: Self| #[trigger] a.spec_pow(0) == Self::ONE,
            forall|a: Self, e: nat| #[trigger] a.spec_pow(e + 1) == a.spec_pow(e).mul_spec(a),
    ;

    fn is_zero(&self) -> (r: bool)
        ensures
            r == (*self == Self::ZERO),
    ;

    fn square(&self) -> (r: Self)
        ensures
            r == self.mul_spec(*self),
    ;

    fn try_inverse(&self) -> (r: Option<Self>)
        ensures
            r.is_none() <==> *self == Self::ZERO,
            r.is_some() ==> r.unwrap() == self.inv(),
    ;

    // real code: `self.try_inverse().expect(..)` -- panics on zero, hence the precondition
    fn inverse(&self) -> (r: Self)
        requires
            *self != Self::ZERO,
        ensures
            r == self.inv(),
    ;

    fn exp_u64(&self, power: u64) -> (r: Self)
        ensures
            r == self.spec_pow(power as nat),
    ;

    fn exp_power_of_2(&self, power_log: usize) -> (r: Self)
        ensures
            r == self.spec_pow(pow2(power_log as nat)),
    ;

    // real code: assert!(n_log <= Self::TWO_ADICITY)
    fn primitive_root_of_unity(n_log: usize) -> (r: Self)
        requires
            n_log <= Self::TWO_ADICITY,
        ensures
            r == Self::spec_primitive_root_of_unity(n_log),
    ;

    // real code (Goldilocks): debug_assert!(n < ORDER)
    fn from_canonical_u64(n: u64) -> (r: Self)
        requires
            (n as int) < 0xFFFF_FFFF_0000_0001,
        ensures
            r == Self::spec_from_u64(n),
    ;

    fn from_canonical_usize(n: usize) -> (r: Self)
        requires
            (n as int) < 0xFFFF_FFFF_0000_0001,
        ensures
            r == Self::spec_from_u64(n as u64),
    ;

    fn from_bool(b: bool) -> (r: Self)
        ensures
            r == Self::spec_from_u64(if b { 1u64 } else { 0u64 }),
    ;

    fn from_canonical_u32(n: u32) -> (r: Self)
        ensures
            r == Self::spec_from_u64(n as u64),
    ;
}

pub trait FieldExtension<const D: usize>: Field {
    type BaseField: Field;

    // coordinates of an extension element over the base field (D of them)
    spec fn spec_basefield(self) -> Seq<Self::BaseField>;

    spec fn spec_from_basefield(coords: Seq<Self::BaseField>) -> Self;

    proof fn ax_ext()
        ensures
            forall|x: Self| (#[trigger] x.spec_basefield()).len() == D,
            forall|x: Self| #[trigger] Self::spec_from_basefield(x.spec_basefield()) == x,
            forall|c: Seq<Self::BaseField>| c.len() == D ==> (#[trigger] Self::spec_from_basefield(c)).spec_basefield() == c,
    ;

    fn to_basefield_array(&self) -> (r: [Self::BaseField; D])
        ensures
            r@ == self.spec_basefield(),
    ;

    fn from_basefield_array(arr: [Self::BaseField; D]) -> (r: Self)
        ensures
            r == Self::spec_from_basefield(arr@),
    ;

    // multiplication of an extension element by a base-field scalar (coordinate-wise; uninterpreted for an abstract extension)
    spec fn spec_scalar_mul(self, s: Self::BaseField) -> Self;

    fn scalar_mul(&self, s: Self::BaseField) -> (r: Self)
        ensures
            r == self.spec_scalar_mul(s),
    ;
}

pub trait Extendable<const D: usize>: Field {
    type Extension: Field + FieldExtension<D, BaseField = Self>;

    spec fn spec_embed(x: Self) -> Self::Extension;

    spec fn spec_flatten(xs: Seq<Self::Extension>) -> Seq<Self>;

    // `x.into()` / `F::Extension::from_basefield(x)`
    fn embed(x: Self) -> (r: Self::Extension)
        ensures
            r == Self::spec_embed(x),
    ;
}

pub trait RichField: Field {
    spec fn spec_canonical_u64(self) -> u64;

    fn to_canonical_u64(&self) -> (r: u64)
        ensures
            r == self.spec_canonical_u64(),
            (r as int) < 0xFFFF_FFFF_0000_0001,
    ;
}

#!/usr/bin/env python3
"""Writes contracts/C13/poseidon_mds.vspec (the 12 per-output postconditions are generated; output is committed)."""
import os
HERE = os.path.dirname(os.path.abspath(__file__))
F = 'plonky2/src/hash/poseidon_goldilocks.rs'
W = 'mod poseidon12_mds'
CIRC = 'MDS_MATRIX_CIRC'


def row(r, st='state', c=None):
    return ' + '.join('%s * %s[%d]' % ((c[i] if c else 'CIRC()[%d]' % i), st, (i + r) % 12) for i in range(12))


circ = [17, 15, 41, 16, 2, 28, 13, 13, 39, 18, 34, 20]
ens_freq = ',\n        '.join('r[%d] == %s' % (r, row(r, c=circ)) for r in range(12))
out = '''//@property C13
//@unit poseidon_mds: frequency-domain MDS multiplication and the Goldilocks mds_layer (plonky2/src/hash/poseidon_goldilocks.rs)
use vstd::prelude::*;
use core::ops::{Add, Sub, Mul, Neg};
verus! {
//@include std_specs
//@include goldilocks

#[derive(Copy, Clone)]
//@item file=field/src/goldilocks_field.rs kind=struct name=GoldilocksField
impl GoldilocksField {
//@item file=field/src/goldilocks_field.rs within="impl Field for GoldilocksField" kind=const name=ZERO
//@import contracts/C14/gl_core.vspec from_noncanonical_u96
}
impl vstd::std_specs::ops::AddSpecImpl for GoldilocksField {
    open spec fn obeys_add_spec() -> bool { false }
    open spec fn add_req(self, rhs: GoldilocksField) -> bool { true }
    open spec fn add_spec(self, rhs: GoldilocksField) -> GoldilocksField { self }
}
impl Add for GoldilocksField {
    type Output = Self;
//@import contracts/C14/gl_core.vspec add
}

pub mod poseidon12_mds {
use super::*;
//@item file=%(F)s within="%(W)s" kind=const name=MDS_FREQ_BLOCK_ONE
//@item file=%(F)s within="%(W)s" kind=const name=MDS_FREQ_BLOCK_TWO
//@item file=%(F)s within="%(W)s" kind=const name=MDS_FREQ_BLOCK_THREE

pub proof fn lemma_freq_consts()
    ensures
        MDS_FREQ_BLOCK_ONE[0] == 16 && MDS_FREQ_BLOCK_ONE[1] == 32 && MDS_FREQ_BLOCK_ONE[2] == 16,
        MDS_FREQ_BLOCK_TWO[0] == (2i64, -1i64) && MDS_FREQ_BLOCK_TWO[1] == (-4i64, 1i64) && MDS_FREQ_BLOCK_TWO[2] == (16i64, 1i64),
        MDS_FREQ_BLOCK_THREE[0] == -1i64 && MDS_FREQ_BLOCK_THREE[1] == -8i64 && MDS_FREQ_BLOCK_THREE[2] == 2i64,
{
}

//@fn id=fft2_real file=%(F)s within="%(W)s" name=fft2_real
//@sig
pub fn fft2_real(x: [u64; 2]) -> (r: [i64; 2])
    requires
        x[0] < 0x1_0000_0000, x[1] < 0x1_0000_0000,
    ensures
        r[0] == x[0] + x[1], r[1] == x[0] - x[1],
//@end

//@fn id=ifft2_real_unreduced file=%(F)s within="%(W)s" name=ifft2_real_unreduced
//@sig
pub fn ifft2_real_unreduced(y: [i64; 2]) -> (r: [u64; 2])
    requires
        0 <= y[0] + y[1] < 0x4000_0000_0000_0000, 0 <= y[0] - y[1] < 0x4000_0000_0000_0000,
    ensures
        r[0] == y[0] + y[1], r[1] == y[0] - y[1],
//@end

//@fn id=fft4_real file=%(F)s within="%(W)s" name=fft4_real
//@sig
pub fn fft4_real(x: [u64; 4]) -> (r: (i64, (i64, i64), i64))
    requires
        forall|i: int| 0 <= i < 4 ==> #[trigger] x[i] < 0x1_0000_0000,
    ensures
        r.0 == x[0] + x[1] + x[2] + x[3], r.1.0 == x[0] - x[2], r.1.1 == -(x[1] - x[3]), r.2 == x[0] + x[2] - x[1] - x[3],
//@end

//@fn id=ifft4_real_unreduced file=%(F)s within="%(W)s" name=ifft4_real_unreduced
//@sig
pub fn ifft4_real_unreduced(y: (i64, (i64, i64), i64)) -> (r: [u64; 4])
    requires
        -0x1000_0000_0000_0000 < y.0 < 0x1000_0000_0000_0000, -0x1000_0000_0000_0000 < y.2 < 0x1000_0000_0000_0000,
        -0x1000_0000_0000_0000 < y.1.0 < 0x1000_0000_0000_0000, -0x1000_0000_0000_0000 < y.1.1 < 0x1000_0000_0000_0000,
        0 <= y.0 + y.2 + y.1.0, 0 <= y.0 + y.2 - y.1.0, 0 <= y.0 - y.2 - y.1.1, 0 <= y.0 - y.2 + y.1.1,
    ensures
        r[0] == y.0 + y.2 + y.1.0, r[2] == y.0 + y.2 - y.1.0, r[1] == y.0 - y.2 - y.1.1, r[3] == y.0 - y.2 + y.1.1,
//@end

//@fn id=block1 file=%(F)s within="%(W)s" name=block1
//@sig
pub fn block1(x: [i64; 3], y: [i64; 3]) -> (r: [i64; 3])
    requires
        forall|i: int| 0 <= i < 3 ==> -0x4_0000_0000 <= #[trigger] x[i] <= 0x4_0000_0000,
        y[0] == 16, y[1] == 32, y[2] == 16,
    ensures
        r[0] == x[0] * 16 + x[1] * 16 + x[2] * 32, r[1] == x[0] * 32 + x[1] * 16 + x[2] * 16, r[2] == x[0] * 16 + x[1] * 32 + x[2] * 16,
//@end

//@fn id=block2 file=%(F)s within="%(W)s" name=block2
//@sig
pub fn block2(x: [(i64, i64); 3], y: [(i64, i64); 3]) -> (r: [(i64, i64); 3])
    requires
        forall|i: int| 0 <= i < 3 ==> -0x4_0000_0000 <= (#[trigger] x[i]).0 <= 0x4_0000_0000 && -0x4_0000_0000 <= x[i].1 <= 0x4_0000_0000,
        y[0] == (2i64, -1i64), y[1] == (-4i64, 1i64), y[2] == (16i64, 1i64),
    ensures
        // complex products with y0 = 2 - i, y1 = -4 + i, y2 = 16 + i:   z0 = x0 y0 - i x1 y2 - i x2 y1, z1 = x0 y1 + x1 y0 - i x2 y2, z2 = x0 y2 + x1 y1 + x2 y0
        r[0].0 == (x[0].0 * 2 + x[0].1) + (x[1].0 + x[1].1 * 16) + (x[2].0 - x[2].1 * 4),
        r[0].1 == (-x[0].0 + x[0].1 * 2) - (x[1].0 * 16 - x[1].1) - (-x[2].0 * 4 - x[2].1),
        r[1].0 == (-x[0].0 * 4 - x[0].1) + (x[1].0 * 2 + x[1].1) + (x[2].0 + x[2].1 * 16),
        r[1].1 == (x[0].0 - x[0].1 * 4) + (-x[1].0 + x[1].1 * 2) - (x[2].0 * 16 - x[2].1),
        r[2].0 == (x[0].0 * 16 - x[0].1) + (-x[1].0 * 4 - x[1].1) + (x[2].0 * 2 + x[2].1),
        r[2].1 == (x[0].0 + x[0].1 * 16) + (x[1].0 - x[1].1 * 4) + (-x[2].0 + x[2].1 * 2),
//@end

//@fn id=block3 file=%(F)s within="%(W)s" name=block3
//@sig
pub fn block3(x: [i64; 3], y: [i64; 3]) -> (r: [i64; 3])
    requires
        forall|i: int| 0 <= i < 3 ==> -0x4_0000_0000 <= #[trigger] x[i] <= 0x4_0000_0000,
        y[0] == -1i64, y[1] == -8i64, y[2] == 2i64,
    ensures
        r[0] == -x[0] - x[1] * 2 + x[2] * 8, r[1] == -x[0] * 8 - x[1] - x[2] * 2, r[2] == x[0] * 2 - x[1] * 8 - x[2],
//@before @start
    proof {
        assert(x[0] * y[0] == -x[0] && x[1] * y[0] == -x[1] && x[2] * y[0] == -x[2]) by (nonlinear_arith) requires y[0] == -1i64;
        assert(x[0] * y[1] == -8 * x[0] && x[1] * y[1] == -8 * x[1] && x[2] * y[1] == -8 * x[2]) by (nonlinear_arith) requires y[1] == -8i64;
        assert(x[0] * y[2] == 2 * x[0] && x[1] * y[2] == 2 * x[1] && x[2] * y[2] == 2 * x[2]) by (nonlinear_arith) requires y[2] == 2i64;
    }
//@end

//@fn id=mds_multiply_freq file=%(F)s within="%(W)s" name=mds_multiply_freq
//@sig
pub fn mds_multiply_freq(state: [u64; 12]) -> (r: [u64; 12])
    requires
        forall|i: int| 0 <= i < 12 ==> #[trigger] state[i] < 0x1_0000_0000,
    ensures
        %(ens_freq)s,
//@before @start
    proof { lemma_freq_consts(); }
//@mutant swap_blocks block1\\(\\[u0, u4, u8\\] ==> block1([u4, u0, u8]
//@mutant wrong_perm ifft4_real_unreduced\\(\\(v0, v1, v2\\)\\) ==> ifft4_real_unreduced((v0, v1, v6))
//@end


} // mod poseidon12_mds

//@item file=%(F)s within="impl Poseidon for GoldilocksField" kind=const name=MDS_MATRIX_CIRC
//@item file=%(F)s within="impl Poseidon for GoldilocksField" kind=const name=MDS_MATRIX_DIAG

// the published MDS matrix is circulant(MDS_MATRIX_CIRC) + diag(MDS_MATRIX_DIAG); row r of the product with `state`
#[verifier::opaque]
pub open spec fn spec_mds_row(state: Seq<int>, r: int) -> int {
    %(specrow)s + (MDS_MATRIX_DIAG[r] as int) * state[r]
}

#[verifier::opaque]
pub open spec fn circ_row(s: Seq<int>, k: int) -> int {
    %(caserow)s
}

pub open spec fn ints12(a: [u64; 12]) -> Seq<int> {
    Seq::new(12, |i: int| a[i] as int)
}

proof fn lemma_rows(state: [u64; 12], r: [u64; 12])
    requires
        forall|i: int| 0 <= i < 12 ==> #[trigger] state[i] < 0x1_0000_0000,
        %(ens_freq)s,
    ensures
        %(ens_rows)s,
        forall|k: int| 0 <= k < 12 ==> (#[trigger] r[k]) < 0x400_0000_0000,
{
    reveal(circ_row);
    let s = ints12(state);
    assert(%(sfacts)s);
    assert(%(rbounds)s);
}

proof fn lemma_row_combine(x: Seq<int>, l: Seq<int>, h: Seq<int>, k: int)
    requires
        0 <= k < 12, x.len() == 12, l.len() == 12, h.len() == 12,
        forall|i: int| 0 <= i < 12 ==> #[trigger] x[i] == l[i] + 0x1_0000_0000 * h[i],
    ensures
        circ_row(x, k) == circ_row(l, k) + 0x1_0000_0000 * circ_row(h, k),
{
    reveal(circ_row);
    assert(%(xfacts)s);
}

proof fn lemma_spec_row(x: Seq<int>, k: int)
    requires
        0 <= k < 12, x.len() == 12,
    ensures
        spec_mds_row(x, k) == circ_row(x, k) + (if k == 0 { 8 * x[0] } else { 0 }),
{
    lemma_mds_consts();
    reveal(circ_row);
    reveal(spec_mds_row);
    %(modfacts)s
}

proof fn lemma_mds_consts()
    ensures
        %(circfacts)s,
        MDS_MATRIX_DIAG[0] == 8, forall|i: int| 1 <= i < 12 ==> MDS_MATRIX_DIAG[i] == 0,
{
}

//@fn id=mds_layer file=%(F)s within="impl Poseidon for GoldilocksField" name=mds_layer nth=0
//@sig
fn mds_layer(state: &[GoldilocksField; 12]) -> (result: [GoldilocksField; 12])
    ensures
        // for ALL 2^64 representations of every state element (canonical or not)
        forall|r: int| 0 <= r < 12 ==> val((#[trigger] result[r]).0) == spec_mds_row(Seq::new(12, |i: int| state[i].0 as int), r) %% P(),
//@rewrite R18 result\\[0\\] \\+= ==> result[0] = result[0] +
//@rewrite R12e Self::MDS_MATRIX_DIAG ==> MDS_MATRIX_DIAG
//@before @start
    proof { lemma_mds_consts(); }
    let ghost xs = Seq::new(12, |i: int| state[i].0 as int);
//@loop 1
        invariant
            forall|j: int| 0 <= j < r ==> (#[trigger] state_h[j]) as int == (state[j].0 as int) / 0x1_0000_0000 && state_h[j] < 0x1_0000_0000,
            forall|j: int| 0 <= j < r ==> (#[trigger] state_l[j]) as int == (state[j].0 as int) %% 0x1_0000_0000 && state_l[j] < 0x1_0000_0000,
//@before @loop-body 1
            proof {
                let sv = state[r as int].0;
                assert((sv >> 32) as int == (sv as int) / 0x1_0000_0000 && (sv >> 32) < 0x1_0000_0000) by (bit_vector);
                assert(((sv as u32) as u64) as int == (sv as int) %% 0x1_0000_0000 && ((sv as u32) as u64) < 0x1_0000_0000) by (bit_vector);
            }
//@before @after-loop 1
    let ghost gh = state_h;
    let ghost gl = state_l;
//@before @before-loop 2
    proof {
        lemma_rows(gh, state_h);
        lemma_rows(gl, state_l);
        assert forall|i: int| 0 <= i < 12 implies #[trigger] xs[i] == ints12(gl)[i] + 0x1_0000_0000 * ints12(gh)[i] by {
            vstd::arithmetic::div_mod::lemma_fundamental_div_mod(state[i].0 as int, 0x1_0000_0000);
        }
    }
//@loop 2
        invariant
            %(inv_h)s,
            %(inv_l)s,
            forall|k: int| 0 <= k < 12 ==> (#[trigger] state_h[k]) < 0x400_0000_0000,
            forall|k: int| 0 <= k < 12 ==> (#[trigger] state_l[k]) < 0x400_0000_0000,
            forall|i: int| 0 <= i < 12 ==> #[trigger] xs[i] == ints12(gl)[i] + 0x1_0000_0000 * ints12(gh)[i],
            xs.len() == 12,
            forall|j: int| 0 <= j < r ==> val((#[trigger] result[j]).0) == circ_row(xs, j) %% P(),
//@before @loop-body 2
            proof {
                lemma_row_combine(xs, ints12(gl), ints12(gh), r as int);
                let hv = state_h[r as int];
                let lv = state_l[r as int];
                assert(r == 0 || r == 1 || r == 2 || r == 3 || r == 4 || r == 5 || r == 6 || r == 7 || r == 8 || r == 9 || r == 10 || r == 11);
                assert(hv as int == circ_row(ints12(gh), r as int) && lv as int == circ_row(ints12(gl), r as int));
                assert(((hv as u128) << 32) as int == (hv as int) * 0x1_0000_0000) by (bit_vector) requires hv < 0x400_0000_0000u64;
                let sv = (lv as u128 + ((hv as u128) << 32)) as u128;
                assert((sv as u64) as int == (sv as int) %% 0x1_0000_0000_0000_0000 && ((sv >> 64) as u32) as int == (sv as int) / 0x1_0000_0000_0000_0000) by (bit_vector)
                    requires sv < 0x1_0000_0000_0000_0000_0000_0000u128;
                vstd::arithmetic::div_mod::lemma_fundamental_div_mod(sv as int, 0x1_0000_0000_0000_0000);
            }
//@before @after-loop 2
    proof {
        let sv: u128 = (8 * (state[0].0 as int)) as u128;
        assert(8 * (state[0].0 as int) < 0x1_0000_0000_0000_0000_0000_0000);
        assert((sv as u64) as int == (sv as int) %% 0x1_0000_0000_0000_0000 && ((sv >> 64) as u32) as int == (sv as int) / 0x1_0000_0000_0000_0000) by (bit_vector)
            requires sv < 0x1_0000_0000_0000_0000_0000_0000u128;
        vstd::arithmetic::div_mod::lemma_fundamental_div_mod(sv as int, 0x1_0000_0000_0000_0000);
        assert forall|k: int| 0 <= k < 12 implies spec_mds_row(xs, k) == circ_row(xs, k) + (if k == 0 { 8 * xs[0] } else { 0 }) by { lemma_spec_row(xs, k); }
        assert forall|a: int, b: int| #![trigger (a + b) %% P()] a %% P() == circ_row(xs, 0) %% P() && b %% P() == (8 * xs[0]) %% P()
            implies (a + b) %% P() == (circ_row(xs, 0) + 8 * xs[0]) %% P() by {
            vstd::arithmetic::div_mod::lemma_add_mod_noop(a, b, P());
            vstd::arithmetic::div_mod::lemma_add_mod_noop(circ_row(xs, 0), 8 * xs[0], P());
        }
    }
//@mutant wrong_shift state_h\[r\] as u128\) << 32 ==> state_h[r] as u128) << 31
//@mutant diag_wrong_elem \(state\[0\]\.0 as u128\) ==> (state[1].0 as u128)
//@mutant lo_hi_swapped let state_h = poseidon12_mds::mds_multiply_freq\(state_h\); ==> let state_h = poseidon12_mds::mds_multiply_freq(state_l);
//@end

} // verus!
fn main() {}
''' % dict(F=F, W=W, ens_freq=ens_freq, rbounds=' && '.join('r[%d] < 0x400_0000_0000' % k for k in range(12)), inv_h=', '.join('state_h[%d] as int == circ_row(ints12(gh), %d)' % (k, k) for k in range(12)), inv_l=', '.join('state_l[%d] as int == circ_row(ints12(gl), %d)' % (k, k) for k in range(12)), ens_rows=',\n        '.join('r[%d] as int == circ_row(ints12(state), %d)' % (k, k) for k in range(12)), specrow=' + '.join('(MDS_MATRIX_CIRC[%d] as int) * state[(%d + r) %% 12]' % (i, i) for i in range(12)),
           caserow=' else '.join('if k == %d { %s }' % (k, ' + '.join('%d * s[%d]' % (c, (i + k) % 12) for i, c in enumerate(circ))) for k in range(11)) + ' else { ' + ' + '.join('%d * s[%d]' % (c, (i + 11) % 12) for i, c in enumerate(circ)) + ' }',
           sfacts=' && '.join('s[%d] == state[%d] as int' % (i, i) for i in range(12)),
           xfacts=' && '.join('x[%d] == l[%d] + 0x1_0000_0000 * h[%d]' % (i, i, i) for i in range(12)),
           modfacts=' '.join('if k == %d { assert(%s); }' % (k, ' && '.join('(%d + k) %% 12 == %d' % (i, (i + k) % 12) for i in range(12))) for k in range(12)), circfacts=', '.join('MDS_MATRIX_CIRC[%d] == %d' % (i, c) for i, c in enumerate(circ)))
open(os.path.join(HERE, '..', 'C13', 'poseidon_mds.vspec'), 'w').write(out)

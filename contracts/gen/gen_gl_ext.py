#!/usr/bin/env python3
"""Writes contracts/C14/gl_ext.vspec (the repetitive per-coefficient contracts are generated; the output is committed)."""
import os
HERE = os.path.dirname(os.path.abspath(__file__))
F = 'field/src/goldilocks_extensions.rs'
T128 = '0x1_0000_0000_0000_0000_0000_0000_0000_0000'
T160 = '0x1_0000_0000_0000_0000_0000_0000_0000_0000_0000_0000'


def coeff(D, W, k):
    lo = [(i, k - i) for i in range(D) if 0 <= k - i < D]
    hi = [(i, k + D - i) for i in range(D) if 0 <= k + D - i < D]
    t = ' + '.join('(a[%d] as int) * (b[%d] as int)' % ij for ij in lo)
    if hi:
        t += ' + (%s.0 as int) * (%s)' % (W, ' + '.join('(a[%d] as int) * (b[%d] as int)' % ij for ij in hi))
    return t


def mutants(D, k):
    m = ''
    if (D, k) in ((4, 0), (4, 1), (2, 0), (4, 2)):
        m += '//@mutant wrong_w u160_times_7 ==> u160_times_3\n'
    if (D, k) in ((5, 0), (5, 2)):
        m += '//@mutant wrong_w u160_times_3 ==> u160_times_7\n'
    if (D, k) in ((4, 3), (5, 4), (2, 1)):
        m += '//@mutant wrong_index \\(a1 as u128\\) ==> (a0 as u128)\n'
    if (D, k) in ((5, 1), (4, 1)):
        m += '//@mutant drop_carry cumul_hi \\+= cy as u32; ==>\n'
    return m


out = []
w = out.append
w('''//@property C14
//@unit gl_ext: delayed-reduction extension-field products (field/src/goldilocks_extensions.rs)
//@trusted T4 u128::overflowing_add/overflowing_sub: std semantics as documented
use vstd::prelude::*;
use core::ops::Mul;
verus! {
//@include std_specs
//@include goldilocks

#[derive(Copy, Clone)]
//@item file=field/src/goldilocks_field.rs kind=struct name=GoldilocksField

//@item file=field/src/goldilocks_extensions.rs within="impl Extendable<2> for GoldilocksField" kind=const name=W as=W2 subst="Self=>GoldilocksField"
//@item file=field/src/goldilocks_extensions.rs within="impl Extendable<4> for GoldilocksField" kind=const name=W as=W4 subst="Self=>GoldilocksField"
//@item file=field/src/goldilocks_extensions.rs within="impl Extendable<5> for GoldilocksField" kind=const name=W as=W5 subst="Self=>GoldilocksField"

//@import contracts/C14/gl_core.vspec reduce160

pub proof fn lemma_prod_bound(a: u64, b: u64)
    ensures
        0 <= (a as int) * (b as int) <= 0xFFFF_FFFF_FFFF_FFFE_0000_0000_0000_0001,
{
    assert(0 <= (a as int) * (b as int) <= 0xFFFF_FFFF_FFFF_FFFF * 0xFFFF_FFFF_FFFF_FFFF) by (nonlinear_arith)
        requires 0 <= a as int <= 0xFFFF_FFFF_FFFF_FFFF, 0 <= b as int <= 0xFFFF_FFFF_FFFF_FFFF;
}

//@fn id=u160_times_3 file=%(F)s name=u160_times_3
//@sig
fn u160_times_3(x: u128, y: u32) -> (r: (u128, u32))
    requires
        y < 0x1000_0000,
    ensures
        r.0 as int + (r.1 as int) * %(T128)s == 3 * (x as int + (y as int) * %(T128)s),
//@before @start
    proof {
        assert((x << 1) as int == 2 * (x as int) - ((x >> 127) as int) * %(T128)s) by (bit_vector);
        assert(((x >> 127) as u32) as int == (x >> 127) as int && (x >> 127) <= 1) by (bit_vector);
    }
//@mutant drop_carry \\+ cy as u32 ==>
//@replay
for a in vx_lattice_u64() { for b in vx_lattice_u64() { for y in [0u32, 1, 5, 0x1000_0000] {
    let x = ((a as u128) << 64) | (b as u128);
    let (lo, hi) = u160_times_3(x, y);
    // compare modulo 2^128 and the high word separately using u128 arithmetic on halves
    let full_lo = x.wrapping_mul(3);
    let carry = ((x >> 64) * 3 + (((x & 0xFFFF_FFFF_FFFF_FFFF) * 3) >> 64)) >> 64;
    assert_eq!((lo, hi as u128), (full_lo, 3 * (y as u128) + carry), "u160_times_3({:#x}, {}) returned ({:#x}, {})", x, y, lo, hi);
}}}
//@end

//@fn id=u160_times_7 file=%(F)s name=u160_times_7
//@sig
fn u160_times_7(x: u128, y: u32) -> (r: (u128, u32))
    requires
        y < 0x1000_0000,   // NB: with only `7*(x + y*2^128) < 2^160` the intermediate `7*y + (x >> 125)` can reach 2^32 (y = 613566756, x >> 125 == 4, borrow set)
    ensures
        r.0 as int + (r.1 as int) * %(T128)s == 7 * (x as int + (y as int) * %(T128)s),
//@before @start
    proof {
        assert((x << 3) as int == 8 * (x as int) - ((x >> 125) as int) * %(T128)s) by (bit_vector);
        assert(((x >> 125) as u32) as int == (x >> 125) as int && (x >> 125) <= 7) by (bit_vector);
        assert((x >> 125) == 0 ==> (x << 3) >= x) by (bit_vector);
    }
//@mutant shift_124 128 - 3 ==> 128 - 4
//@replay
for a in vx_lattice_u64() { for b in vx_lattice_u64() { for y in [0u32, 1, 5, 0x1000_0000] {
    let x = ((a as u128) << 64) | (b as u128);
    let (lo, hi) = u160_times_7(x, y);
    let full_lo = x.wrapping_mul(7);
    let carry = ((x >> 64) * 7 + (((x & 0xFFFF_FFFF_FFFF_FFFF) * 7) >> 64)) >> 64;
    assert_eq!((lo, hi as u128), (full_lo, 7 * (y as u128) + carry), "u160_times_7({:#x}, {}) returned ({:#x}, {})", x, y, lo, hi);
}}}
//@end
''' % dict(F=F, T128=T128, T160=T160))

for D, W in ((2, 'W2'), (4, 'W4'), (5, 'W5')):
    for k in range(D):
        pairs = ' '.join('lemma_prod_bound(a[%d], b[%d]);' % (i, j) for i in range(D) for j in range(D))
        w('''//@fn id=ext%(D)d_add_prods%(k)d file=%(F)s name=ext%(D)d_add_prods%(k)d
//@sig
fn ext%(D)d_add_prods%(k)d(a: &[u64; %(D)d], b: &[u64; %(D)d]) -> (r: GoldilocksField)
    ensures
        val(r.0) == (%(c)s) %% P(),
//@before @start
    proof { %(pairs)s }
%(mut)s//@end
''' % dict(mut=mutants(D, k), D=D, k=k, F=F, c=coeff(D, W, k), pairs=pairs))
    ens = ',\n        '.join('val(r[%d].0) == (%s) %% P()' % (k, coeff(D, W, k)) for k in range(D))
    w('''//@fn id=ext%(D)d_mul file=%(F)s name=ext%(D)d_mul
//@sig
fn ext%(D)d_mul(a: [u64; %(D)d], b: [u64; %(D)d]) -> (r: [GoldilocksField; %(D)d])
    ensures
        %(ens)s,
//@replay
let w: u128 = %(wv)d;
let p: u128 = 0xFFFF_FFFF_0000_0001;
let lat = vx_lattice_u64();
let pick = |s: usize| -> [u64; %(D)d] { let mut o = [0u64; %(D)d]; for i in 0..%(D)d { o[i] = lat[(s * 7 + i * 13 + s / 5) %% lat.len()]; } o };
for s in 0..600usize { for t in [0usize, 1, 17, 29] {
    let a = pick(s); let b = pick(s * 3 + t);
    let r = ext%(D)d_mul(a, b);
    for k in 0..%(D)d {
        let mut acc: u128 = 0;
        for i in 0..%(D)d { for j in 0..%(D)d {
            let prod = vx_mod_p(vx_mod_p(a[i] as u128) * vx_mod_p(b[j] as u128));
            if i + j == k { acc = (acc + prod) %% p; } else if i + j == k + %(D)d { acc = (acc + vx_mod_p(w * prod)) %% p; }
        }}
        assert_eq!(vx_mod_p(r[k].0 as u128), acc, "ext%(D)d_mul({:#x?}, {:#x?}) coefficient {} is {:#x}", a, b, k, r[k].0);
    }
}}
//@end
''' % dict(D=D, F=F, ens=ens, wv={2: 7, 4: 7, 5: 3}[D]))

w('''} // verus!
fn main() {}
''')
open(os.path.join(HERE, '..', 'C14', 'gl_ext.vspec'), 'w').write('\n'.join(out))

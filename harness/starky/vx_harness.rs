// Bounded stand-in harness for starky (C09).  Defines its own small Fibonacci-style STARK.  BOUNDED: never counted as proof.
#![allow(unused_imports, dead_code, clippy::all)]
use core::marker::PhantomData;
use std::panic::{catch_unwind, AssertUnwindSafe};

use plonky2::field::extension::{Extendable, FieldExtension};
use plonky2::field::goldilocks_field::GoldilocksField;
use plonky2::field::packed::PackedField;
use plonky2::field::polynomial::PolynomialValues;
use plonky2::field::types::{Field, PrimeField64};
use plonky2::hash::hash_types::RichField;
use plonky2::iop::ext_target::ExtensionTarget;
use plonky2::plonk::circuit_builder::CircuitBuilder;
use plonky2::plonk::config::{GenericConfig, PoseidonGoldilocksConfig};
use plonky2::util::timing::TimingTree;
use crate::util::trace_rows_to_poly_values;

use crate::config::StarkConfig;
use crate::constraint_consumer::{ConstraintConsumer, RecursiveConstraintConsumer};
use crate::evaluation_frame::{StarkEvaluationFrame, StarkFrame};
use crate::proof::StarkProofWithPublicInputs;
use crate::prover::prove;
use crate::stark::Stark;
use crate::verifier::verify_stark_proof;

const D: usize = 2;
type C = PoseidonGoldilocksConfig;
type F = GoldilocksField;
type FE = <F as Extendable<D>>::Extension;

fn finish(name: &str, cases: usize, bad: Vec<String>) {
    println!("vx_harness {}: {} cases, {} failures", name, cases, bad.len());
    for b in &bad {
        println!("VXFAIL {}: {}", name, b);
    }
    assert!(bad.is_empty(), "vx_harness {}: {} of {} cases violate the property", name, bad.len(), cases);
}

// columns: x0, x1; first row = (pi0, pi1); transition x0' = x1, x1' = x0 + x1; last row x1 = pi2
#[derive(Copy, Clone)]
struct Fib<F: RichField + Extendable<D>, const D: usize> { num_rows: usize, _p: PhantomData<F> }

impl<F: RichField + Extendable<D>, const D: usize> Stark<F, D> for Fib<F, D> {
    type EvaluationFrame<FE, P, const D2: usize> = StarkFrame<P, P::Scalar, 2, 3> where FE: FieldExtension<D2, BaseField = F>, P: PackedField<Scalar = FE>;
    type EvaluationFrameTarget = StarkFrame<ExtensionTarget<D>, ExtensionTarget<D>, 2, 3>;

    fn eval_packed_generic<FE, P, const D2: usize>(&self, vars: &Self::EvaluationFrame<FE, P, D2>, yield_constr: &mut ConstraintConsumer<P>)
    where FE: FieldExtension<D2, BaseField = F>, P: PackedField<Scalar = FE> {
        let l = vars.get_local_values(); let n = vars.get_next_values(); let pi = vars.get_public_inputs();
        yield_constr.constraint_first_row(l[0] - pi[0]);
        yield_constr.constraint_first_row(l[1] - pi[1]);
        yield_constr.constraint_last_row(l[1] - pi[2]);
        yield_constr.constraint_transition(n[0] - l[1]);
        yield_constr.constraint_transition(n[1] - l[0] - l[1]);
    }

    fn eval_ext_circuit(&self, builder: &mut CircuitBuilder<F, D>, vars: &Self::EvaluationFrameTarget, yield_constr: &mut RecursiveConstraintConsumer<F, D>) {
        let l = vars.get_local_values(); let n = vars.get_next_values(); let pi = vars.get_public_inputs();
        let c = builder.sub_extension(l[0], pi[0]); yield_constr.constraint_first_row(builder, c);
        let c = builder.sub_extension(l[1], pi[1]); yield_constr.constraint_first_row(builder, c);
        let c = builder.sub_extension(l[1], pi[2]); yield_constr.constraint_last_row(builder, c);
        let c = builder.sub_extension(n[0], l[1]); yield_constr.constraint_transition(builder, c);
        let c = { let t = builder.sub_extension(n[1], l[0]); builder.sub_extension(t, l[1]) }; yield_constr.constraint_transition(builder, c);
    }

    fn constraint_degree(&self) -> usize { 2 }
}

fn trace(num_rows: usize, x0: F, x1: F) -> Vec<[F; 2]> {
    let mut rows = vec![[x0, x1]];
    for i in 1..num_rows { let p = rows[i - 1]; rows.push([p[1], p[0] + p[1]]); }
    rows
}

fn prove_rows(stark: Fib<F, D>, rows: Vec<[F; 2]>, pis: [F; 3], config: &StarkConfig) -> Result<StarkProofWithPublicInputs<F, C, D>, String> {
    let t = trace_rows_to_poly_values(rows);
    match catch_unwind(AssertUnwindSafe(|| prove::<F, C, Fib<F, D>, D>(stark, config, t, &pis, None, &mut TimingTree::default()))) {
        Ok(Ok(p)) => Ok(p), Ok(Err(e)) => Err(format!("prover error: {e}")), Err(_) => Err("prover panicked".into()),
    }
}

fn verdict(stark: Fib<F, D>, p: StarkProofWithPublicInputs<F, C, D>, config: &StarkConfig) -> &'static str {
    match catch_unwind(AssertUnwindSafe(|| verify_stark_proof(stark, p, config, None))) { Ok(Ok(())) => "ACCEPTED", Ok(Err(_)) => "rejected", Err(_) => "PANICKED" }
}

// C09: satisfying traces verify; a violated first-row / last-row / transition constraint (incl. the wrap-around row) or altered
// public inputs / proof elements never yields an accepted proof
#[test]
fn c09_fibonacci_accept_reject() {
    log::set_max_level(log::LevelFilter::Trace);   // log statements are part of the code under test: their arguments are evaluated at this level
    let mut bad = Vec::new();
    let mut cases = 0usize;
    let config = StarkConfig::standard_fast_config();
    for lg in [3usize, 5] {
        let n = 1usize << lg;
        let stark = Fib::<F, D> { num_rows: n, _p: PhantomData };
        let rows = trace(n, F::ZERO, F::ONE);
        let pis = [F::ZERO, F::ONE, rows[n - 1][1]];
        cases += 1;
        let proof = match prove_rows(stark, rows.clone(), pis, &config) { Ok(p) => p, Err(e) => { bad.push(format!("honest trace of {n} rows: {e}")); continue; } };
        if verdict(stark, proof.clone(), &config) != "ACCEPTED" { bad.push(format!("honest proof for {n} rows not accepted")); continue; }
        // corrupted traces: first row, interior row, last row, and a trace whose last row would only be consistent with the wrap-around exemption removed
        for (what, r, c) in [("first row", 0usize, 0usize), ("first row", 0, 1), ("interior row", n / 2, 0), ("interior row", n / 2, 1), ("row n-2", n - 2, 1), ("last row", n - 1, 1), ("last row", n - 1, 0)] {
            let mut bad_rows = rows.clone();
            bad_rows[r][c] += F::ONE;
            cases += 1;
            // with debug assertions the prover refuses; if it does emit a proof the verifier must reject it
            if let Ok(p) = prove_rows(stark, bad_rows, pis, &config) { if verdict(stark, p, &config) == "ACCEPTED" { bad.push(format!("{n} rows: trace with corrupted {what} (col {c}) produced an accepted proof")); } }
        }
        for k in 0..3 { let mut p2 = proof.clone(); p2.public_inputs[k] += F::ONE; cases += 1; if verdict(stark, p2, &config) == "ACCEPTED" { bad.push(format!("{n} rows: altered public input {k} accepted")); } }
        { let mut p2 = proof.clone(); p2.proof.openings.local_values[0] += FE::ONE; cases += 1; if verdict(stark, p2, &config) == "ACCEPTED" { bad.push(format!("{n} rows: altered local opening accepted")); } }
        { let mut p2 = proof.clone(); p2.proof.openings.next_values[1] += FE::ONE; cases += 1; if verdict(stark, p2, &config) == "ACCEPTED" { bad.push(format!("{n} rows: altered next-row opening accepted")); } }
        { let mut p2 = proof.clone(); if let Some(q) = p2.proof.openings.quotient_polys.as_mut() { q[0] += FE::ONE; } cases += 1; if verdict(stark, p2, &config) == "ACCEPTED" { bad.push(format!("{n} rows: altered quotient opening accepted")); } }
        { let mut p2 = proof.clone(); p2.proof.trace_cap.0[0].elements[0] += F::ONE; cases += 1; if verdict(stark, p2, &config) == "ACCEPTED" { bad.push(format!("{n} rows: altered trace cap accepted")); } }
        { let mut p2 = proof.clone(); p2.proof.opening_proof.pow_witness += F::ONE; cases += 1; if verdict(stark, p2, &config) == "ACCEPTED" { bad.push(format!("{n} rows: altered pow witness accepted")); } }
        { let mut p2 = proof.clone(); p2.proof.opening_proof.final_poly.coeffs[0] += FE::ONE; cases += 1; if verdict(stark, p2, &config) == "ACCEPTED" { bad.push(format!("{n} rows: altered final polynomial accepted")); } }
        // malformed (C18): must be an error, never a panic or an acceptance
        for v in 0..4 { let mut p2 = proof.clone();
            let what = match v { 0 => { p2.public_inputs.push(F::ZERO); "surplus public input" } 1 => { p2.public_inputs.pop(); "missing public input" } 2 => { p2.proof.openings.local_values.pop(); "truncated openings" } _ => { p2.proof.opening_proof.final_poly.coeffs.pop(); "truncated final polynomial" } };
            cases += 1; let o = verdict(stark, p2, &config); if o != "rejected" { bad.push(format!("{n} rows: proof with {what} -> {o}")); } }
    }
    finish("c09_fibonacci_accept_reject", cases, bad);
}

// a STARK without any constraint (constraint degree 0, hence no quotient polynomial)
#[derive(Copy, Clone)]
struct Unc<F: RichField + Extendable<D>, const D: usize> { _p: PhantomData<F> }
impl<F: RichField + Extendable<D>, const D: usize> Stark<F, D> for Unc<F, D> {
    type EvaluationFrame<FE, P, const D2: usize> = StarkFrame<P, P::Scalar, 2, 0> where FE: FieldExtension<D2, BaseField = F>, P: PackedField<Scalar = FE>;
    type EvaluationFrameTarget = StarkFrame<ExtensionTarget<D>, ExtensionTarget<D>, 2, 0>;
    fn eval_packed_generic<FE, P, const D2: usize>(&self, _vars: &Self::EvaluationFrame<FE, P, D2>, _yield_constr: &mut ConstraintConsumer<P>)
    where FE: FieldExtension<D2, BaseField = F>, P: PackedField<Scalar = FE> {}
    fn eval_ext_circuit(&self, _builder: &mut CircuitBuilder<F, D>, _vars: &Self::EvaluationFrameTarget, _yield_constr: &mut RecursiveConstraintConsumer<F, D>) {}
    fn constraint_degree(&self) -> usize { 0 }
}

// C18: the STARK verifier returns Err (never panics, never accepts) on malformed proofs
#[test]
fn c18_stark_malformed() {
    log::set_max_level(log::LevelFilter::Trace);   // log statements are part of the code under test: their arguments are evaluated at this level
    let mut bad = Vec::new();
    let mut cases = 0usize;
    // the standard configuration, and configurations whose cap is lower than the blow-up (cap_height < rate_bits)
    let mut configs: Vec<(StarkConfig, Vec<usize>)> = vec![(StarkConfig::standard_fast_config(), vec![8, 64, 2048])];
    { let mut c = StarkConfig::standard_fast_config(); c.fri_config.cap_height = 0; configs.push((c, vec![8, 64])); }
    { let mut c = StarkConfig::standard_fast_config(); c.fri_config.cap_height = 1; c.fri_config.rate_bits = 2; c.fri_config.num_query_rounds = 50; configs.push((c, vec![16, 64])); }
    for (config, sizes) in configs { let config = &config;
    for n in sizes {
        let stark = Fib::<F, D> { num_rows: n, _p: PhantomData };
        let rows = trace(n, F::ZERO, F::ONE);
        let pis = [F::ZERO, F::ONE, rows[n - 1][1]];
        let proof = match prove_rows(stark, rows.clone(), pis, config) { Ok(p) => p, Err(e) => { bad.push(format!("honest trace of {n} rows: {e}")); continue; } };
        let mut muts: Vec<(&'static str, Box<dyn Fn(&mut StarkProofWithPublicInputs<F, C, D>)>)> = Vec::new();
        muts.push(("surplus public input", Box::new(|p| p.public_inputs.push(F::ZERO))));
        muts.push(("missing public input", Box::new(|p| { p.public_inputs.pop(); })));
        muts.push(("no public inputs", Box::new(|p| p.public_inputs.clear())));
        muts.push(("truncated local openings", Box::new(|p| { p.proof.openings.local_values.pop(); })));
        muts.push(("surplus next openings", Box::new(|p| p.proof.openings.next_values.push(FE::ZERO))));
        muts.push(("quotient openings removed", Box::new(|p| p.proof.openings.quotient_polys = None)));
        muts.push(("truncated quotient openings", Box::new(|p| { if let Some(q) = p.proof.openings.quotient_polys.as_mut() { q.pop(); } })));
        muts.push(("auxiliary openings present", Box::new(|p| p.proof.openings.auxiliary_polys = Some(vec![FE::ZERO]))));
        muts.push(("ctl_zs_first present", Box::new(|p| p.proof.openings.ctl_zs_first = Some(vec![F::ZERO]))));
        muts.push(("empty auxiliary openings present (Some of an empty vector)", Box::new(|p| p.proof.openings.auxiliary_polys = Some(vec![]))));
        muts.push(("empty auxiliary next-row openings present (Some of an empty vector)", Box::new(|p| p.proof.openings.auxiliary_polys_next = Some(vec![]))));
        muts.push(("both auxiliary opening vectors present and empty", Box::new(|p| { p.proof.openings.auxiliary_polys = Some(vec![]); p.proof.openings.auxiliary_polys_next = Some(vec![]); })));
        muts.push(("empty ctl_zs_first present", Box::new(|p| p.proof.openings.ctl_zs_first = Some(vec![]))));
        muts.push(("auxiliary cap present", Box::new(|p| p.proof.auxiliary_polys_cap = Some(p.proof.trace_cap.clone()))));
        muts.push(("quotient cap removed", Box::new(|p| p.proof.quotient_polys_cap = None)));
        muts.push(("trace cap with 3 entries", Box::new(|p| { p.proof.trace_cap.0.truncate(3); })));
        muts.push(("empty trace cap", Box::new(|p| p.proof.trace_cap.0.clear())));
        muts.push(("surplus trace cap entry", Box::new(|p| { let h = p.proof.trace_cap.0[0]; p.proof.trace_cap.0.push(h); })));
        muts.push(("quotient cap with 3 entries", Box::new(|p| { if let Some(c) = p.proof.quotient_polys_cap.as_mut() { c.0.truncate(3); } })));
        muts.push(("truncated final polynomial", Box::new(|p| { p.proof.opening_proof.final_poly.coeffs.pop(); })));
        muts.push(("surplus final polynomial coefficient", Box::new(|p| p.proof.opening_proof.final_poly.coeffs.push(FE::ZERO))));
        muts.push(("no query rounds", Box::new(|p| p.proof.opening_proof.query_round_proofs.clear())));
        muts.push(("one query round missing", Box::new(|p| { p.proof.opening_proof.query_round_proofs.pop(); })));
        muts.push(("first query round without initial openings", Box::new(|p| p.proof.opening_proof.query_round_proofs[0].initial_trees_proof.evals_proofs.clear())));
        muts.push(("last query round without initial openings", Box::new(|p| p.proof.opening_proof.query_round_proofs.last_mut().unwrap().initial_trees_proof.evals_proofs.clear())));
        muts.push(("first Merkle path emptied", Box::new(|p| p.proof.opening_proof.query_round_proofs[0].initial_trees_proof.evals_proofs[0].1.siblings.clear())));
        muts.push(("first Merkle path shortened by one", Box::new(|p| { p.proof.opening_proof.query_round_proofs[0].initial_trees_proof.evals_proofs[0].1.siblings.pop(); })));
        muts.push(("first Merkle path lengthened by one", Box::new(|p| { let s = &mut p.proof.opening_proof.query_round_proofs[0].initial_trees_proof.evals_proofs[0].1.siblings; let h = s[0]; s.push(h); })));
        muts.push(("first Merkle path with 20 siblings", Box::new(|p| { let s = &mut p.proof.opening_proof.query_round_proofs[0].initial_trees_proof.evals_proofs[0].1.siblings; let h = s[0]; s.resize(20, h); })));
        muts.push(("first Merkle path with 28 siblings (LDE of 2^32)", Box::new(|p| { let s = &mut p.proof.opening_proof.query_round_proofs[0].initial_trees_proof.evals_proofs[0].1.siblings; let h = s[0]; s.resize(28, h); })));
        muts.push(("every Merkle path of the first tree with 28 siblings", Box::new(|p| { for r in p.proof.opening_proof.query_round_proofs.iter_mut() { let s = &mut r.initial_trees_proof.evals_proofs[0].1.siblings; let h = s[0]; s.resize(28, h); } })));
        muts.push(("first Merkle path with 29 siblings", Box::new(|p| { let s = &mut p.proof.opening_proof.query_round_proofs[0].initial_trees_proof.evals_proofs[0].1.siblings; let h = s[0]; s.resize(29, h); })));
        muts.push(("first Merkle path with 40 siblings", Box::new(|p| { let s = &mut p.proof.opening_proof.query_round_proofs[0].initial_trees_proof.evals_proofs[0].1.siblings; let h = s[0]; s.resize(40, h); })));
        muts.push(("first Merkle path with 70 siblings", Box::new(|p| { let s = &mut p.proof.opening_proof.query_round_proofs[0].initial_trees_proof.evals_proofs[0].1.siblings; let h = s[0]; s.resize(70, h); })));
        muts.push(("second round Merkle path shortened", Box::new(|p| { p.proof.opening_proof.query_round_proofs[1].initial_trees_proof.evals_proofs[0].1.siblings.pop(); })));
        muts.push(("initial leaf truncated", Box::new(|p| { p.proof.opening_proof.query_round_proofs[0].initial_trees_proof.evals_proofs[0].0.pop(); })));
        muts.push(("commit-phase caps removed", Box::new(|p| p.proof.opening_proof.commit_phase_merkle_caps.clear())));
        muts.push(("surplus commit-phase cap", Box::new(|p| { let c = p.proof.trace_cap.clone(); p.proof.opening_proof.commit_phase_merkle_caps.push(c); })));
        muts.push(("query steps removed", Box::new(|p| p.proof.opening_proof.query_round_proofs[0].steps.clear())));
        muts.push(("step evals truncated", Box::new(|p| { if let Some(s) = p.proof.opening_proof.query_round_proofs[0].steps.first_mut() { s.evals.pop(); } })));
        muts.push(("step Merkle path lengthened", Box::new(|p| { if let Some(s) = p.proof.opening_proof.query_round_proofs[0].steps.first_mut() { let h = p.proof.trace_cap.0[0]; s.merkle_proof.siblings.push(h); } })));
        for (what, m) in &muts {
            let mut p2 = proof.clone();
            if catch_unwind(AssertUnwindSafe(|| m(&mut p2))).is_err() { continue; }
            if format!("{:?}", p2) == format!("{:?}", proof) { continue; } // the surgery does not apply to this proof
            cases += 1;
            let o = verdict(stark, p2, config);
            if o != "rejected" { bad.push(format!("{n} rows (cap height {}, rate bits {}): proof with {what} -> {o}", config.fri_config.cap_height, config.fri_config.rate_bits)); }
        }
    }
    }
    // the verifier that is handed the FRI parameters of a (larger) recursive verifier circuit: the same rule, on proofs proved for those parameters
    for (n, vbits) in [(32usize, 30usize), (64, 14), (8, 6), (256, 10), (1024, 10)] {
        let config = StarkConfig::standard_fast_config();
        let vparams = config.fri_params(vbits);
        let padded_len = 1usize << (vparams.degree_bits - vparams.reduction_arity_bits.iter().sum::<usize>());
        let stark = Fib::<F, D> { num_rows: n, _p: PhantomData };
        let rows = trace(n, F::ZERO, F::ONE);
        let pis = [F::ZERO, F::ONE, rows[n - 1][1]];
        let t = trace_rows_to_poly_values(rows);
        let proof = match catch_unwind(AssertUnwindSafe(|| prove::<F, C, Fib<F, D>, D>(stark, &config, t, &pis, Some(vparams.clone()), &mut TimingTree::default()))) {
            Ok(Ok(p)) => p, _ => { bad.push(format!("{n} rows, verifier degree 2^{vbits}: honest proving failed")); continue; } };
        let v = |p: StarkProofWithPublicInputs<F, C, D>| match catch_unwind(AssertUnwindSafe(|| verify_stark_proof(stark, p, &config, Some(vparams.clone())))) { Ok(Ok(())) => "ACCEPTED", Ok(Err(_)) => "rejected", Err(_) => "PANICKED" };
        cases += 1; let o = v(proof.clone()); if o != "ACCEPTED" { bad.push(format!("{n} rows, verifier degree 2^{vbits}: honest proof {o}")); continue; }
        let len0 = proof.proof.opening_proof.final_poly.coeffs.len();
        for new_len in [0usize, len0.saturating_sub(1), len0 + 1, padded_len, padded_len + 1, 4 * padded_len] {
            if new_len == len0 { continue; }
            let mut p2 = proof.clone();
            let filler = p2.proof.opening_proof.final_poly.coeffs[0];
            p2.proof.opening_proof.final_poly.coeffs.resize(new_len, filler);
            cases += 1; let o = v(p2); if o != "rejected" { bad.push(format!("{n} rows, verifier degree 2^{vbits}: proof with a {new_len}-coefficient final polynomial (honest {len0}, padded {padded_len}) -> {o}")); }
        }
        if !proof.proof.opening_proof.commit_phase_merkle_caps.is_empty() { let mut p2 = proof.clone(); p2.proof.opening_proof.commit_phase_merkle_caps.clear(); cases += 1; let o = v(p2); if o != "rejected" { bad.push(format!("{n} rows, verifier degree 2^{vbits}: proof without commit-phase caps -> {o}")); } }
        { let mut p2 = proof.clone(); let c = p2.proof.trace_cap.clone(); p2.proof.opening_proof.commit_phase_merkle_caps.push(c); cases += 1; let o = v(p2); if o != "rejected" { bad.push(format!("{n} rows, verifier degree 2^{vbits}: proof with a surplus commit-phase cap -> {o}")); } }
        { let mut p2 = proof.clone(); p2.proof.opening_proof.query_round_proofs.pop(); cases += 1; let o = v(p2); if o != "rejected" { bad.push(format!("{n} rows, verifier degree 2^{vbits}: proof with a query round missing -> {o}")); } }
        { let mut p2 = proof.clone(); p2.public_inputs.pop(); cases += 1; let o = v(p2); if o != "rejected" { bad.push(format!("{n} rows, verifier degree 2^{vbits}: proof with a public input missing -> {o}")); } }
    }
    // a STARK without constraints has no quotient: a proof that nevertheless carries an (empty) quotient opening vector, or a quotient cap, is malformed
    {
        let config = StarkConfig::standard_fast_config();
        let stark = Unc::<F, D> { _p: PhantomData };
        let rows: Vec<[F; 2]> = (0..64).map(|i| [F::from_canonical_u64(i), F::from_canonical_u64(2 * i + 1)]).collect();
        let t = trace_rows_to_poly_values(rows);
        match catch_unwind(AssertUnwindSafe(|| prove::<F, C, Unc<F, D>, D>(stark, &config, t, &[], None, &mut TimingTree::default()))) {
            Ok(Ok(proof)) => {
                let v = |p: StarkProofWithPublicInputs<F, C, D>| match catch_unwind(AssertUnwindSafe(|| verify_stark_proof(stark, p, &config, None))) { Ok(Ok(())) => "ACCEPTED", Ok(Err(_)) => "rejected", Err(_) => "PANICKED" };
                cases += 1; let o = v(proof.clone()); if o != "ACCEPTED" { bad.push(format!("constraint-free STARK: honest proof {o}")); }
                { let mut p2 = proof.clone(); p2.proof.openings.quotient_polys = Some(vec![]); cases += 1; let o = v(p2); if o != "rejected" { bad.push(format!("constraint-free STARK: proof with an empty quotient opening vector -> {o}")); } }
                { let mut p2 = proof.clone(); p2.proof.openings.quotient_polys = Some(vec![FE::ONE]); cases += 1; let o = v(p2); if o != "rejected" { bad.push(format!("constraint-free STARK: proof with a surplus quotient opening -> {o}")); } }
                { let mut p2 = proof.clone(); p2.proof.quotient_polys_cap = Some(p2.proof.trace_cap.clone()); cases += 1; let o = v(p2); if o != "rejected" { bad.push(format!("constraint-free STARK: proof with a quotient cap -> {o}")); } }
            }
            _ => bad.push("constraint-free STARK: honest proving failed".into()),
        }
    }
    finish("c18_stark_malformed", cases, bad);
}

// ---- a family of counter STARKs: N columns, declared constraint degree DEG (1, 2 or 3) ----
// column i at row r holds start + i + r*(i+1); transition (next_i - local_i - (i+1)) [* local_i [* next_i]] == 0;
// first row: column 0 == pi0; last row: column N-1 == pi1
#[derive(Copy, Clone)]
struct Ctr<F: RichField + Extendable<D>, const D: usize, const N: usize, const DEG: usize> { _p: PhantomData<F> }

impl<F: RichField + Extendable<D>, const D: usize, const N: usize, const DEG: usize> Stark<F, D> for Ctr<F, D, N, DEG> {
    type EvaluationFrame<FE, P, const D2: usize> = StarkFrame<P, P::Scalar, N, 2> where FE: FieldExtension<D2, BaseField = F>, P: PackedField<Scalar = FE>;
    type EvaluationFrameTarget = StarkFrame<ExtensionTarget<D>, ExtensionTarget<D>, N, 2>;

    fn eval_packed_generic<FE, P, const D2: usize>(&self, vars: &Self::EvaluationFrame<FE, P, D2>, yield_constr: &mut ConstraintConsumer<P>)
    where FE: FieldExtension<D2, BaseField = F>, P: PackedField<Scalar = FE> {
        let l = vars.get_local_values(); let n = vars.get_next_values(); let pi = vars.get_public_inputs();
        yield_constr.constraint_first_row(l[0] - pi[0]);
        for i in 0..N {
            let mut c = n[i] - l[i] - P::Scalar::from_canonical_usize(i + 1);
            if DEG >= 2 { c = c * l[i]; }
            if DEG >= 3 { c = c * n[i]; }
            for _ in 3..DEG { c = c * l[i]; }
            yield_constr.constraint_transition(c);
        }
        yield_constr.constraint_last_row(l[N - 1] - pi[1]);
    }

    fn eval_ext_circuit(&self, builder: &mut CircuitBuilder<F, D>, vars: &Self::EvaluationFrameTarget, yield_constr: &mut RecursiveConstraintConsumer<F, D>) {
        let l = vars.get_local_values(); let n = vars.get_next_values(); let pi = vars.get_public_inputs();
        let c = builder.sub_extension(l[0], pi[0]); yield_constr.constraint_first_row(builder, c);
        for i in 0..N {
            let s = builder.constant_extension(F::Extension::from_canonical_usize(i + 1));
            let t = builder.sub_extension(n[i], l[i]);
            let mut c = builder.sub_extension(t, s);
            if DEG >= 2 { c = builder.mul_extension(c, l[i]); }
            if DEG >= 3 { c = builder.mul_extension(c, n[i]); }
            for _ in 3..DEG { c = builder.mul_extension(c, l[i]); }
            yield_constr.constraint_transition(builder, c);
        }
        let c = builder.sub_extension(l[N - 1], pi[1]); yield_constr.constraint_last_row(builder, c);
    }

    fn constraint_degree(&self) -> usize { DEG }
}

fn ctr_battery<const N: usize, const DEG: usize>(bad: &mut Vec<String>, cases: &mut usize) { ctr_battery_cfg::<N, DEG>(StarkConfig::standard_fast_config(), bad, cases) }

// blowup 2^rate_bits admits constraint degrees up to 2^rate_bits + 1; the quotient is split into max(1, DEG - 1) chunks, which is not a power of two for DEG in {4, 6, 7, 8}
fn cfg_rate(rate_bits: usize) -> StarkConfig {
    let mut c = StarkConfig::standard_fast_config();
    c.fri_config.rate_bits = rate_bits; c.fri_config.num_query_rounds = 84usize.div_ceil(rate_bits);
    c
}

fn ctr_battery_cfg<const N: usize, const DEG: usize>(config: StarkConfig, bad: &mut Vec<String>, cases: &mut usize) {
    let stark = Ctr::<F, D, N, DEG> { _p: PhantomData };
    for rows_n in [16usize, 128] {
        let tag = format!("counter STARK with {N} columns, degree {DEG}, rate_bits {}, {rows_n} rows", config.fri_config.rate_bits);
        let start = F::from_canonical_u64(1000);
        let rows: Vec<[F; N]> = (0..rows_n).map(|r| { let mut row = [F::ZERO; N]; for i in 0..N { row[i] = start + F::from_canonical_usize(i + r * (i + 1)); } row }).collect();
        let pis = [rows[0][0], rows[rows_n - 1][N - 1]];
        let prove_it = |rows: Vec<[F; N]>, pis: [F; 2]| -> Result<StarkProofWithPublicInputs<F, C, D>, String> {
            let t = trace_rows_to_poly_values(rows);
            match catch_unwind(AssertUnwindSafe(|| prove::<F, C, Ctr<F, D, N, DEG>, D>(stark, &config, t, &pis, None, &mut TimingTree::default()))) {
                Ok(Ok(p)) => Ok(p), Ok(Err(e)) => Err(format!("prover error: {e}")), Err(_) => Err("prover panicked".into()),
            }
        };
        let verdict = |p: StarkProofWithPublicInputs<F, C, D>| -> &'static str {
            match catch_unwind(AssertUnwindSafe(|| verify_stark_proof(stark, p, &config, None))) { Ok(Ok(())) => "ACCEPTED", Ok(Err(_)) => "rejected", Err(_) => "PANICKED" }
        };
        *cases += 1;
        let proof = match prove_it(rows.clone(), pis) { Ok(p) => p, Err(e) => { bad.push(format!("{tag}: honest trace: {e}")); continue; } };
        let v = verdict(proof.clone());
        if v != "ACCEPTED" { bad.push(format!("{tag}: honest proof {v}")); continue; }
        // statement changes on an honest proof
        for k in 0..2 { let mut p2 = proof.clone(); p2.public_inputs[k] += F::ONE; *cases += 1; if verdict(p2) == "ACCEPTED" { bad.push(format!("{tag}: altered public input {k} accepted")); } }
        for col in [0usize, N - 1] {
            { let mut p2 = proof.clone(); p2.proof.openings.local_values[col] += FE::ONE; *cases += 1; if verdict(p2) == "ACCEPTED" { bad.push(format!("{tag}: altered local opening {col} accepted")); } }
            { let mut p2 = proof.clone(); p2.proof.openings.next_values[col] += FE::ONE; *cases += 1; if verdict(p2) == "ACCEPTED" { bad.push(format!("{tag}: altered next-row opening {col} accepted")); } }
        }
        // violating traces / false statements handed to the prover: whatever it emits must not be accepted
        for (what, r, c) in [("first row", 0usize, 0usize), ("interior row", rows_n / 2, N - 1), ("interior row", 3, 0), ("last row", rows_n - 1, N - 1), ("last row", rows_n - 1, 0)] {
            let mut bad_rows = rows.clone(); bad_rows[r][c] += F::ONE; *cases += 1;
            if let Ok(p) = prove_it(bad_rows, pis) { if verdict(p) == "ACCEPTED" { bad.push(format!("{tag}: trace with corrupted {what} (col {c}) produced an accepted proof")); } }
        }
        for (d0, d1) in [(F::ONE, F::ZERO), (F::ZERO, F::ONE), (F::ONE, F::NEG_ONE), (F::TWO, F::ONE)] {
            *cases += 1;
            if let Ok(p) = prove_it(rows.clone(), [pis[0] + d0, pis[1] + d1]) { if verdict(p) == "ACCEPTED" { bad.push(format!("{tag}: false public inputs (+{}, +{}) produced an accepted proof", d0.to_canonical_u64(), d1.to_canonical_u64())); } }
        }
    }
}

// C09: acceptance does not depend on the width or the declared constraint degree; violating traces are never accepted
#[test]
fn c09_widths_and_degrees() {
    log::set_max_level(log::LevelFilter::Trace);   // log statements are part of the code under test: their arguments are evaluated at this level
    let mut bad = Vec::new();
    let mut cases = 0usize;
    ctr_battery::<2, 1>(&mut bad, &mut cases);
    ctr_battery::<3, 2>(&mut bad, &mut cases);
    ctr_battery::<5, 3>(&mut bad, &mut cases);
    ctr_battery::<13, 2>(&mut bad, &mut cases);
    ctr_battery::<16, 2>(&mut bad, &mut cases);
    ctr_battery::<17, 1>(&mut bad, &mut cases);
    ctr_battery::<24, 3>(&mut bad, &mut cases);
    ctr_battery::<40, 2>(&mut bad, &mut cases);
    // higher blowups: every constraint degree the blowup admits, including those with a quotient split into 3, 5, 6, 7 chunks
    ctr_battery_cfg::<3, 2>(cfg_rate(2), &mut bad, &mut cases);
    ctr_battery_cfg::<3, 4>(cfg_rate(2), &mut bad, &mut cases);
    ctr_battery_cfg::<2, 5>(cfg_rate(2), &mut bad, &mut cases);
    ctr_battery_cfg::<2, 3>(cfg_rate(3), &mut bad, &mut cases);
    ctr_battery_cfg::<2, 6>(cfg_rate(3), &mut bad, &mut cases);
    ctr_battery_cfg::<3, 7>(cfg_rate(3), &mut bad, &mut cases);
    ctr_battery_cfg::<2, 8>(cfg_rate(3), &mut bad, &mut cases);
    ctr_battery_cfg::<2, 9>(cfg_rate(3), &mut bad, &mut cases);
    // Fibonacci: simultaneous errors in both first-row statements (they must not cancel), and in first + last row
    let config = StarkConfig::standard_fast_config();
    for n in [8usize, 64] {
        let stark = Fib::<F, D> { num_rows: n, _p: PhantomData };
        let rows = trace(n, F::from_canonical_u64(7), F::from_canonical_u64(6));
        let pis = [rows[0][0], rows[0][1], rows[n - 1][1]];
        for (d0, d1, d2) in [(1i64, -1i64, 0i64), (-4, 4, 0), (3, -3, 0), (1, 0, -1), (0, 1, -1), (2, -1, -1), (-4, 4, 1)] {
            let f = |d: i64| if d >= 0 { F::from_canonical_u64(d as u64) } else { -F::from_canonical_u64((-d) as u64) };
            cases += 1;
            if let Ok(p) = prove_rows(stark, rows.clone(), [pis[0] + f(d0), pis[1] + f(d1), pis[2] + f(d2)], &config) {
                if verdict(stark, p, &config) == "ACCEPTED" { bad.push(format!("Fibonacci {n} rows: false public inputs (offsets {d0}, {d1}, {d2}) produced an accepted proof")); }
            }
        }
    }
    finish("c09_widths_and_degrees", cases, bad);
}

// C04 (STARK transcript): every statement parameter and every prover message changes all challenges drawn after it
#[test]
fn c04_stark_transcript() {
    use plonky2::iop::challenger::Challenger;
    use plonky2::hash::poseidon::PoseidonHash;
    let mut bad = Vec::new();
    let mut cases = 0usize;
    let config = StarkConfig::standard_fast_config();
    let n = 2048usize;   // large enough for FRI commit-phase layers
    let stark = Fib::<F, D> { num_rows: n, _p: PhantomData };
    let rows = trace(n, F::ZERO, F::ONE);
    let pis = [F::ZERO, F::ONE, rows[n - 1][1]];
    let proof = match prove_rows(stark, rows, pis, &config) { Ok(p) => p, Err(e) => { bad.push(format!("honest proof: {e}")); finish("c04_stark_transcript", 1, bad); return; } };
    // challenge vector in drawing order: alphas, zeta, fri_alpha, betas.., pow response, query indices
    let chal = |p: &StarkProofWithPublicInputs<F, C, D>, cfg: &StarkConfig| -> Option<Vec<Vec<u64>>> {
        catch_unwind(AssertUnwindSafe(|| {
            let mut ch = Challenger::<F, PoseidonHash>::new();
            let c = p.get_challenges(&stark, &mut ch, None, None, false, cfg, None);
            let ext = |e: FE| { let a: [F; D] = e.to_basefield_array(); a.iter().map(|x| x.to_canonical_u64()).collect::<Vec<u64>>() };
            let mut v: Vec<Vec<u64>> = Vec::new();
            v.push(c.stark_alphas.iter().map(|x| x.to_canonical_u64()).collect());
            v.push(ext(c.stark_zeta));
            v.push(ext(c.fri_challenges.fri_alpha));
            v.push(c.fri_challenges.fri_betas.iter().flat_map(|&b| ext(b)).collect());
            v.push(vec![c.fri_challenges.fri_pow_response.to_canonical_u64()]);
            v.push(c.fri_challenges.fri_query_indices.iter().map(|&i| i as u64).collect());
            v
        })).ok()
    };
    let Some(base) = chal(&proof, &config) else { bad.push("challenge derivation of the honest proof panicked".into()); finish("c04_stark_transcript", 1, bad); return; };
    let ncaps = proof.proof.opening_proof.commit_phase_merkle_caps.len();
    if ncaps == 0 { bad.push("harness: the proof has no commit-phase caps".into()); }
    // (what, first challenge group that must change, mutation); groups: 0 alphas, 1 zeta, 2 fri_alpha, 3 betas, 4 pow response, 5 query indices
    let mut muts: Vec<(String, usize, Box<dyn Fn(&mut StarkProofWithPublicInputs<F, C, D>)>)> = Vec::new();
    muts.push(("trace cap".into(), 0, Box::new(|p| p.proof.trace_cap.0[0].elements[0] += F::ONE)));
    muts.push(("last trace cap entry".into(), 0, Box::new(|p| { let l = p.proof.trace_cap.0.len() - 1; p.proof.trace_cap.0[l].elements[3] += F::ONE; })));
    for k in 0..3 { muts.push((format!("public input {k}"), 0, Box::new(move |p| p.public_inputs[k] += F::ONE))); }
    muts.push(("quotient cap".into(), 1, Box::new(|p| { if let Some(c) = p.proof.quotient_polys_cap.as_mut() { c.0[0].elements[1] += F::ONE; } })));
    muts.push(("local opening".into(), 2, Box::new(|p| p.proof.openings.local_values[0] += FE::ONE)));
    muts.push(("next-row opening".into(), 2, Box::new(|p| p.proof.openings.next_values[1] += FE::ONE)));
    muts.push(("quotient opening".into(), 2, Box::new(|p| { if let Some(q) = p.proof.openings.quotient_polys.as_mut() { let l = q.len() - 1; q[l] += FE::ONE; } })));
    for k in 0..ncaps { muts.push((format!("commit-phase cap {k}"), 3, Box::new(move |p| p.proof.opening_proof.commit_phase_merkle_caps[k].0[0].elements[0] += F::ONE))); }
    muts.push(("final polynomial coefficient 0".into(), 4, Box::new(|p| p.proof.opening_proof.final_poly.coeffs[0] += FE::ONE)));
    muts.push(("last final polynomial coefficient".into(), 4, Box::new(|p| { let l = p.proof.opening_proof.final_poly.coeffs.len() - 1; p.proof.opening_proof.final_poly.coeffs[l] += FE::ONE; })));
    muts.push(("proof-of-work witness".into(), 4, Box::new(|p| p.proof.opening_proof.pow_witness += F::ONE)));
    for (what, first, m) in &muts {
        let mut p2 = proof.clone(); m(&mut p2);
        cases += 1;
        let Some(c2) = chal(&p2, &config) else { bad.push(format!("altered {what}: challenge derivation panicked")); continue; };
        for g in *first..6 {
            // commit-phase cap k only influences betas from k on: compare the whole group, which contains beta k
            if c2[g] == base[g] && !(base[g].is_empty()) { bad.push(format!("altered {what}: challenge group {g} ({}) is unchanged", ["alphas", "zeta", "fri_alpha", "betas", "pow response", "query indices"][g])); break; }
        }
        // messages sent later must not influence challenges drawn earlier
        for g in 0..*first { if c2[g] != base[g] { bad.push(format!("altered {what}: EARLIER challenge group {g} changed (the message is absorbed too early or the order is wrong)")); break; } }
    }
    // the optional parts of the opening set (lookup / cross-table-lookup openings) are messages as well: on a proof that carries them, altering any of
    // them must change the FRI batching challenge and everything after it (get_challenges does not validate the shape, so the forged shape is usable here)
    {
        let mut with_opt = proof.clone();
        with_opt.proof.openings.auxiliary_polys = Some(vec![FE::ONE, FE::TWO]);
        with_opt.proof.openings.auxiliary_polys_next = Some(vec![FE::TWO, FE::ONE]);
        with_opt.proof.openings.ctl_zs_first = Some(vec![F::ONE, F::TWO]);
        if let Some(b2) = chal(&with_opt, &config) {
            let opt_muts: Vec<(&str, Box<dyn Fn(&mut StarkProofWithPublicInputs<F, C, D>)>)> = vec![
                ("auxiliary opening", Box::new(|p| p.proof.openings.auxiliary_polys.as_mut().unwrap()[1] += FE::ONE)),
                ("auxiliary next-row opening", Box::new(|p| p.proof.openings.auxiliary_polys_next.as_mut().unwrap()[0] += FE::ONE)),
                ("first-row opening of a cross-table-lookup Z (ctl_zs_first)", Box::new(|p| p.proof.openings.ctl_zs_first.as_mut().unwrap()[1] += F::ONE)),
                ("ctl_zs_first removed", Box::new(|p| p.proof.openings.ctl_zs_first = None)),
            ];
            for (what, m) in &opt_muts {
                let mut p2 = with_opt.clone(); m(&mut p2);
                cases += 1;
                let Some(c2) = chal(&p2, &config) else { continue; };
                for g in 2..6 { if c2[g] == b2[g] && !b2[g].is_empty() { bad.push(format!("altered {what}: challenge group {g} ({}) is unchanged", ["alphas", "zeta", "fri_alpha", "betas", "pow response", "query indices"][g])); break; } }
            }
        }
    }
    // the auxiliary commitment (lookup helpers / cross-table-lookup Zs) precedes alphas, zeta and every FRI challenge, both when the lookup challenges are
    // drawn from this transcript and when the caller of a multi-table system supplies them
    {
        use crate::lookup::{GrandProductChallenge, GrandProductChallengeSet};
        let supplied = GrandProductChallengeSet { challenges: (0..config.num_challenges).map(|i| GrandProductChallenge { beta: F::from_canonical_u64(11 + i as u64), gamma: F::from_canonical_u64(5 + 2 * i as u64) }).collect() };
        let mut with_aux = proof.clone();
        with_aux.proof.auxiliary_polys_cap = Some(with_aux.proof.trace_cap.clone());
        for (mode, set) in [("drawn", None), ("supplied by the caller", Some(&supplied))] {
            let chal2 = |p: &StarkProofWithPublicInputs<F, C, D>| -> Option<Vec<Vec<u64>>> {
                catch_unwind(AssertUnwindSafe(|| {
                    let mut ch = Challenger::<F, PoseidonHash>::new();
                    let c = p.get_challenges(&stark, &mut ch, set, None, false, &config, None);
                    let ext = |e: FE| { let a: [F; D] = e.to_basefield_array(); a.iter().map(|x| x.to_canonical_u64()).collect::<Vec<u64>>() };
                    vec![c.stark_alphas.iter().map(|x| x.to_canonical_u64()).collect(), ext(c.stark_zeta), ext(c.fri_challenges.fri_alpha), vec![c.fri_challenges.fri_pow_response.to_canonical_u64()], c.fri_challenges.fri_query_indices.iter().map(|&i| i as u64).collect()]
                })).ok()
            };
            let Some(b2) = chal2(&with_aux) else { continue; };
            let ncap = with_aux.proof.trace_cap.0.len();
            for (entry, elt) in [(0usize, 0usize), (ncap - 1, 3), (ncap / 2, 1)] {
                let mut p2 = with_aux.clone(); p2.proof.auxiliary_polys_cap.as_mut().unwrap().0[entry].elements[elt] += F::ONE;
                cases += 1;
                let Some(c2) = chal2(&p2) else { continue; };
                for g in 0..5 { if c2[g] == b2[g] { bad.push(format!("lookup challenges {mode}: altered auxiliary cap entry {entry}: challenge group {g} ({}) is unchanged", ["alphas", "zeta", "fri_alpha", "pow response", "query indices"][g])); break; } }
            }
            { let mut p2 = with_aux.clone(); p2.proof.auxiliary_polys_cap = None; cases += 1;
              if let Some(c2) = chal2(&p2) { if c2[0] == b2[0] || c2[1] == b2[1] { bad.push(format!("lookup challenges {mode}: auxiliary cap removed: alphas / zeta unchanged")); } } }
        }
    }
    // the stand-alone prover's transcript is the full one: the honest proof verifies against challenges derived with every commitment absorbed (trace cap
    // included, ignore_trace_cap = false), and not against challenges derived without the trace cap
    {
        use crate::verifier::verify_stark_proof_with_challenges;
        for ignore in [false, true] {
            let r = catch_unwind(AssertUnwindSafe(|| {
                let mut ch = Challenger::<F, PoseidonHash>::new();
                let c = proof.get_challenges(&stark, &mut ch, None, None, ignore, &config, None);
                verify_stark_proof_with_challenges::<F, C, Fib<F, D>, D>(&stark, &proof.proof, &c, None, &proof.public_inputs, &config).is_ok()
            }));
            cases += 1;
            match (ignore, r) {
                (false, Ok(true)) | (true, Ok(false)) | (true, Err(_)) => {}
                (false, _) => bad.push("the proof of the stand-alone prover does not verify under the transcript that absorbs the trace cap: prover and verifier leave the trace commitment out of the transcript".into()),
                (true, Ok(true)) => bad.push("the proof of the stand-alone prover verifies under challenges derived WITHOUT the trace cap".into()),
            }
        }
    }
    // the FRI reduction strategy, with its parameters, is part of the statement: configurations that differ only there must not share challenges
    {
        use plonky2::fri::reduction_strategies::FriReductionStrategy as S;
        let strategies: Vec<(&str, S)> = vec![("Fixed([1, 1])", S::Fixed(vec![1, 1])), ("Fixed([2])", S::Fixed(vec![2])), ("Fixed([1, 1, 1])", S::Fixed(vec![1, 1, 1])), ("Fixed([])", S::Fixed(vec![])),
            ("ConstantArityBits(4, 5)", S::ConstantArityBits(4, 5)), ("ConstantArityBits(3, 5)", S::ConstantArityBits(3, 5)), ("ConstantArityBits(4, 4)", S::ConstantArityBits(4, 4)),
            ("MinSize(None)", S::MinSize(None)), ("MinSize(Some(3))", S::MinSize(Some(3))), ("MinSize(Some(4))", S::MinSize(Some(4)))];
        let alphas: Vec<Option<Vec<u64>>> = strategies.iter().map(|(_, st)| { let mut c = config.clone(); c.fri_config.reduction_strategy = st.clone();
            catch_unwind(AssertUnwindSafe(|| { let mut ch = Challenger::<F, PoseidonHash>::new(); ch.observe_elements(&proof.public_inputs); c.observe(&mut ch); ch.get_n_challenges(2).iter().map(|x| x.to_canonical_u64()).collect::<Vec<u64>>() })).ok() }).collect();
        for i in 0..strategies.len() { for j in i + 1..strategies.len() {
            cases += 1;
            if let (Some(a), Some(b)) = (&alphas[i], &alphas[j]) { if a == b { bad.push(format!("configurations with reduction strategies {} and {} lead to the same transcript", strategies[i].0, strategies[j].0)); } }
        } }
    }
    // statement parameters: every configuration value is part of the transcript
    let mut cfgs: Vec<(&'static str, StarkConfig)> = Vec::new();
    { let mut c = config.clone(); c.security_bits += 1; cfgs.push(("security_bits", c)); }
    { let mut c = config.clone(); c.fri_config.proof_of_work_bits += 1; cfgs.push(("proof_of_work_bits", c)); }
    { let mut c = config.clone(); c.fri_config.num_query_rounds += 1; cfgs.push(("num_query_rounds", c)); }
    { let mut c = config.clone(); c.num_challenges += 1; cfgs.push(("num_challenges", c)); }
    { let mut c = config.clone(); c.fri_config.rate_bits += 1; cfgs.push(("rate_bits", c)); }
    { let mut c = config.clone(); c.fri_config.cap_height -= 1; cfgs.push(("cap_height", c)); }
    for (what, cfg) in &cfgs {
        cases += 1;
        let Some(c2) = chal(&proof, cfg) else { continue; };
        if c2[0] == base[0] || c2[1] == base[1] || c2[2] == base[2] { bad.push(format!("configuration value {what} altered: alphas / zeta / fri_alpha unchanged")); }
    }
    finish("c04_stark_transcript", cases, bad);
}

// C09: a prover that ignores the constraints altogether.  It commits to the (violating) trace, derives the transcript exactly as the verifier does,
// and tries to answer the opening point zeta with degree-one "quotients" t_j(X) = a_j + b_j X chosen so that vanishing_j(zeta) == Z_H(zeta) t_j(zeta).
// That only works if it learns zeta BEFORE it must commit to the quotient; it therefore omits the quotient commitment from the proof.
// Whatever the proving API can be made to emit for a false statement must not be accepted.
fn cheating_stark_proof(stark: Fib<F, D>, config: &StarkConfig, trace: Vec<PolynomialValues<F>>, public_inputs: &[F], mode: u8) -> StarkProofWithPublicInputs<F, C, D> {
    use core::iter::successors;
    use plonky2::field::polynomial::PolynomialCoeffs;
    use plonky2::fri::oracle::PolynomialBatch;
    use plonky2::hash::poseidon::PoseidonHash;
    use plonky2::iop::challenger::Challenger;
    use plonky2::util::{log2_ceil, log2_strict};
    use crate::proof::{StarkOpeningSet, StarkProof};
    use crate::vanishing_poly::{compute_eval_vanishing_poly, eval_l_0_and_l_last, eval_vanishing_poly};
    let mut timing = TimingTree::default();
    let degree = trace[0].len();
    let degree_bits = log2_strict(degree);
    let fri_params = config.fri_params(degree_bits);
    let rate_bits = config.fri_config.rate_bits;
    let cap_height = config.fri_config.cap_height;
    let nc = config.num_challenges;
    let g = F::primitive_root_of_unity(degree_bits);
    let trace_commitment = PolynomialBatch::<F, C, D>::from_values(trace, rate_bits, false, cap_height, &mut timing, None);
    let mut challenger = Challenger::<F, PoseidonHash>::new();
    challenger.observe_elements(public_inputs);
    config.observe(&mut challenger);
    challenger.observe_cap(&trace_commitment.merkle_tree.cap);
    let alphas_prime = challenger.get_n_challenges(nc);
    let pow_degree = core::cmp::max(2, stark.constraint_degree() + 1);
    let num_extension_powers = core::cmp::max(1, 50 / log2_ceil(pow_degree) - 1);
    let total: usize = 2 * 2;
    let simulating_zetas = challenger.get_n_extension_challenges::<D>(total.div_ceil(num_extension_powers));
    let per_zeta = core::cmp::min(num_extension_powers + 1, total);
    let dummy = simulating_zetas.iter().flat_map(|&z| successors(Some(z), move |prev: &FE| Some(prev.exp_u64(pow_degree as u64))).take(per_zeta)).collect::<Vec<FE>>();
    let dummy_openings = StarkOpeningSet::<F, D> { local_values: dummy[..2].to_vec(), next_values: dummy[2..4].to_vec(), auxiliary_polys: None, auxiliary_polys_next: None, ctl_zs_first: None, quotient_polys: None };
    let zeta_prime = challenger.get_extension_challenge::<D>();
    let bound = compute_eval_vanishing_poly::<F, Fib<F, D>, D>(&stark, &dummy_openings, None, None, &[], public_inputs, alphas_prime, zeta_prime, degree_bits, 0);
    challenger.observe_extension_elements::<D>(&bound);
    let alphas = challenger.get_n_challenges(nc);
    // mode 3: commit to all-zero "quotients" in the honest transcript order and withhold their openings (the verifier's vanishing check would then range over nothing)
    if mode == 3 {
        let zero_polys = (0..stark.num_quotient_polys(config)).map(|_| PolynomialCoeffs::new(vec![F::ZERO; degree])).collect::<Vec<_>>();
        let quotient_commitment = PolynomialBatch::<F, C, D>::from_coeffs(zero_polys, rate_bits, false, cap_height, &mut timing, None);
        challenger.observe_cap(&quotient_commitment.merkle_tree.cap);
        let zeta = challenger.get_extension_challenge::<D>();
        let mut openings = StarkOpeningSet::<F, D>::new::<C>(zeta, g, &trace_commitment, None, Some(&quotient_commitment), 0, false, &[]);
        openings.quotient_polys = None;
        challenger.observe_openings(&openings.to_fri_openings());
        let opening_proof = PolynomialBatch::<F, C, D>::prove_openings(&stark.fri_instance(zeta, g, 0, vec![], config), &[&trace_commitment, &quotient_commitment], &mut challenger, &fri_params, None, None, &mut timing);
        return StarkProofWithPublicInputs { proof: StarkProof { trace_cap: trace_commitment.merkle_tree.cap.clone(), auxiliary_polys_cap: None,
            quotient_polys_cap: Some(quotient_commitment.merkle_tree.cap.clone()), openings, opening_proof }, public_inputs: public_inputs.to_vec() };
    }
    // modes 0-2, the cheat: squeeze the next challenge and bet that it is the opening point
    let zeta = challenger.get_extension_challenge::<D>();
    let trace_openings = StarkOpeningSet::<F, D>::new::<C>(zeta, g, &trace_commitment, None, None, 0, false, &[]);
    let (l_0, l_last) = eval_l_0_and_l_last(degree_bits, zeta);
    let z_last = zeta - <FE as FieldExtension<D>>::from_basefield(g.inverse());
    let mut consumer = ConstraintConsumer::<FE>::new(alphas.iter().map(|&a| <FE as FieldExtension<D>>::from_basefield(a)).collect(), z_last, l_0, l_last);
    let pis_ext = public_inputs.iter().map(|&x| <FE as FieldExtension<D>>::from_basefield(x)).collect::<Vec<_>>();
    let vars = <Fib<F, D> as Stark<F, D>>::EvaluationFrame::<FE, FE, D>::from_values(&trace_openings.local_values, &trace_openings.next_values, &pis_ext);
    eval_vanishing_poly::<F, FE, FE, Fib<F, D>, D, D>(&stark, &vars, &[], None, None, &mut consumer);
    let vanishing_zeta = consumer.accumulators();
    let z_h_zeta = zeta.exp_power_of_2(degree_bits) - FE::ONE;
    let zp: [F; D] = <FE as FieldExtension<D>>::to_basefield_array(&zeta);
    let quotient_polys = vanishing_zeta.iter().map(|&v| {
        let c: [F; D] = <FE as FieldExtension<D>>::to_basefield_array(&(v / z_h_zeta));
        let b = c[1] / zp[1];
        let a = c[0] - b * zp[0];
        let mut coeffs = vec![F::ZERO; degree]; coeffs[0] = a; coeffs[1] = b;
        PolynomialCoeffs::new(coeffs)
    }).collect::<Vec<_>>();
    let quotient_commitment = PolynomialBatch::<F, C, D>::from_coeffs(quotient_polys, rate_bits, false, cap_height, &mut timing, None);
    // mode 2: the quotient commitment enters the transcript only AFTER the bet (what a transcript that squeezes zeta too early would look like)
    if mode == 2 { challenger.observe_cap(&quotient_commitment.merkle_tree.cap); }
    let openings = StarkOpeningSet::<F, D>::new::<C>(zeta, g, &trace_commitment, None, Some(&quotient_commitment), 0, false, &[]);
    challenger.observe_openings(&openings.to_fri_openings());
    let opening_proof = PolynomialBatch::<F, C, D>::prove_openings(&stark.fri_instance(zeta, g, 0, vec![], config), &[&trace_commitment, &quotient_commitment], &mut challenger, &fri_params, None, None, &mut timing);
    StarkProofWithPublicInputs { proof: StarkProof { trace_cap: trace_commitment.merkle_tree.cap.clone(), auxiliary_polys_cap: None,
        quotient_polys_cap: if mode >= 1 { Some(quotient_commitment.merkle_tree.cap.clone()) } else { None }, openings, opening_proof }, public_inputs: public_inputs.to_vec() }
}

#[test]
fn c09_cheating_prover() {
    log::set_max_level(log::LevelFilter::Trace);   // log statements are part of the code under test: their arguments are evaluated at this level
    let mut bad = Vec::new();
    let mut cases = 0usize;
    let config = StarkConfig::standard_fast_config();
    for n in [32usize, 256] {
        let stark = Fib::<F, D> { num_rows: n, _p: PhantomData };
        let rows = trace(n, F::ZERO, F::ONE);
        let res = rows[n - 1][1];
        // false statements: wrong claimed result; corrupted interior cell; both
        for (what, cell, dres) in [("wrong claimed result", None, F::ONE), ("corrupted interior cell", Some(n / 2), F::ZERO), ("corrupted cell and wrong result", Some(3), F::TWO)] {
            let mut r2 = rows.clone();
            if let Some(c) = cell { r2[c][0] += F::from_canonical_u64(12345); }
            let pis = [F::ZERO, F::ONE, res + dres];
            for mode in 0u8..4 {
                cases += 1;
                let t = trace_rows_to_poly_values(r2.clone());
                let how = ["degree-one quotients fitted to a guessed zeta, no quotient commitment sent", "degree-one quotients fitted to a guessed zeta, commitment sent but not absorbed",
                           "degree-one quotients fitted to a zeta squeezed before the quotient commitment is absorbed", "all-zero quotient polynomials committed, their openings withheld"][mode as usize];
                match catch_unwind(AssertUnwindSafe(|| cheating_stark_proof(stark, &config, t, &pis, mode))) {
                    Ok(p) => { let v = verdict(stark, p, &config); if v != "rejected" { bad.push(format!("{n} rows, {what}: proof of a prover that ignores the constraints ({how}) -> {v}")); } }
                    Err(_) => {}   // the cheating strategy itself broke down: nothing was emitted
                }
            }
        }
        // sanity of the harness prover: on an HONEST trace and statement its transcript matches the verifier's only if the quotient cap is absorbed, so
        // neither variant is expected to be accepted; an honest proof from the real prover is
        cases += 1;
        match prove_rows(stark, rows.clone(), [F::ZERO, F::ONE, res], &config) { Ok(p) => { if verdict(stark, p, &config) != "ACCEPTED" { bad.push(format!("{n} rows: honest proof not accepted")); } } Err(e) => bad.push(format!("{n} rows: honest proving failed: {e}")) }
    }
    finish("c09_cheating_prover", cases, bad);
}

// ---- a STARK with a lookup argument (logUp): column 0 is looked up in column 1 with multiplicities in column 2; one transition constraint of degree 3 so
// that the STARK has a quotient (the in-crate example declares degree 0, for which the verifier checks nothing) ----
#[derive(Copy, Clone)]
struct Lk<F2: RichField + Extendable<D2>, const D2: usize> { _p: PhantomData<F2> }

impl<F2: RichField + Extendable<D2>, const D2: usize> Stark<F2, D2> for Lk<F2, D2> {
    type EvaluationFrame<FE2, P, const D3: usize> = StarkFrame<P, P::Scalar, 3, 1> where FE2: FieldExtension<D3, BaseField = F2>, P: PackedField<Scalar = FE2>;
    type EvaluationFrameTarget = StarkFrame<ExtensionTarget<D2>, ExtensionTarget<D2>, 3, 1>;
    fn constraint_degree(&self) -> usize { 3 }
    fn lookups(&self) -> Vec<crate::lookup::Lookup<F2>> {
        vec![crate::lookup::Lookup { columns: vec![crate::lookup::Column::single(0)], table_column: crate::lookup::Column::single(1), frequencies_column: crate::lookup::Column::single(2), filter_columns: vec![Default::default()] }]
    }
    fn eval_packed_generic<FE2, P, const D3: usize>(&self, vars: &Self::EvaluationFrame<FE2, P, D3>, yield_constr: &mut ConstraintConsumer<P>)
    where FE2: FieldExtension<D3, BaseField = F2>, P: PackedField<Scalar = FE2> {
        let l = vars.get_local_values(); let n = vars.get_next_values(); let pi = vars.get_public_inputs();
        yield_constr.constraint_first_row(l[0] - pi[0]);
        // column 0 counts up; the factor l[2] * l[2] only raises the degree to 3 (column 2 is constant 1 on honest traces)
        yield_constr.constraint_transition((n[0] - l[0] - P::ONES) * l[2] * l[2]);
    }
    fn eval_ext_circuit(&self, _builder: &mut CircuitBuilder<F2, D2>, _vars: &Self::EvaluationFrameTarget, _yield_constr: &mut RecursiveConstraintConsumer<F2, D2>) { unimplemented!("native checks only") }
}

fn lk_rows(n: usize, x0: u64) -> Vec<[F; 3]> {
    // column 1 is a rotation of column 0: the same multiset
    (0..n).map(|i| [F::from_canonical_u64(x0 + i as u64), F::from_canonical_u64(x0 + ((i + 1) % n) as u64), F::ONE]).collect()
}

// C09 / C18 on a STARK with lookups: honest traces are accepted, a looked-up value that is not in the table column is not, and malformed optional parts
// of the opening set are refused cleanly
#[test]
fn c09_c18_lookup_stark() {
    log::set_max_level(log::LevelFilter::Trace);
    let mut bad = Vec::new();
    let mut cases = 0usize;
    let config = StarkConfig::standard_fast_config();
    let stark = Lk::<F, D> { _p: PhantomData };
    let verdict = |p: StarkProofWithPublicInputs<F, C, D>| -> &'static str { match catch_unwind(AssertUnwindSafe(|| verify_stark_proof(stark, p, &config, None))) { Ok(Ok(())) => "ACCEPTED", Ok(Err(_)) => "rejected", Err(_) => "PANICKED" } };
    let prove_it = |rows: Vec<[F; 3]>, pi: F| -> Result<StarkProofWithPublicInputs<F, C, D>, String> {
        match catch_unwind(AssertUnwindSafe(|| prove::<F, C, Lk<F, D>, D>(stark, &config, trace_rows_to_poly_values(rows), &[pi], None, &mut TimingTree::default()))) { Ok(Ok(p)) => Ok(p), Ok(Err(e)) => Err(format!("{e}")), Err(_) => Err("prover panicked".into()) } };
    for n in [16usize, 64] {
        let rows = lk_rows(n, 100);
        cases += 1;
        let proof = match prove_it(rows.clone(), rows[0][0]) { Ok(p) => p, Err(e) => { bad.push(format!("lookup STARK, {n} rows: honest trace: {e}")); continue; } };
        if verdict(proof.clone()) != "ACCEPTED" { bad.push(format!("lookup STARK, {n} rows: honest proof {}", verdict(proof.clone()))); continue; }
        // a looked-up value that the table column does not contain; a wrong multiplicity
        for (what, r, c, v) in [("looked-up value outside the table", n / 2, 0usize, F::from_canonical_u64(99999)), ("table entry changed", 3, 1, F::from_canonical_u64(77777)), ("multiplicity 2 for an entry looked up once", 5, 2, F::TWO)] {
            let mut bad_rows = rows.clone(); bad_rows[r][c] = v; cases += 1;
            if let Ok(p) = prove_it(bad_rows, rows[0][0]) { if verdict(p) == "ACCEPTED" { bad.push(format!("lookup STARK, {n} rows: trace with {what} produced an accepted proof")); } }
        }
        // proof surgery on the lookup-specific parts
        let mut muts: Vec<(&str, Box<dyn Fn(&mut StarkProofWithPublicInputs<F, C, D>)>)> = Vec::new();
        muts.push(("auxiliary opening altered", Box::new(|p| { if let Some(a) = p.proof.openings.auxiliary_polys.as_mut() { a[0] += FE::ONE; } })));
        muts.push(("auxiliary next-row opening altered", Box::new(|p| { if let Some(a) = p.proof.openings.auxiliary_polys_next.as_mut() { let l = a.len() - 1; a[l] += FE::ONE; } })));
        muts.push(("auxiliary cap altered", Box::new(|p| { if let Some(c) = p.proof.auxiliary_polys_cap.as_mut() { c.0[0].elements[0] += F::ONE; } })));
        muts.push(("auxiliary openings removed", Box::new(|p| p.proof.openings.auxiliary_polys = None)));
        muts.push(("auxiliary next-row openings removed", Box::new(|p| p.proof.openings.auxiliary_polys_next = None)));
        muts.push(("auxiliary cap removed", Box::new(|p| p.proof.auxiliary_polys_cap = None)));
        muts.push(("auxiliary openings truncated", Box::new(|p| { if let Some(a) = p.proof.openings.auxiliary_polys.as_mut() { a.pop(); } })));
        muts.push(("auxiliary next-row openings extended", Box::new(|p| { if let Some(a) = p.proof.openings.auxiliary_polys_next.as_mut() { a.push(FE::ONE); } })));
        muts.push(("auxiliary openings emptied", Box::new(|p| p.proof.openings.auxiliary_polys = Some(vec![]))));
        muts.push(("ctl_zs_first = Some(vec![]) on a STARK without cross-table lookups", Box::new(|p| p.proof.openings.ctl_zs_first = Some(vec![]))));
        muts.push(("ctl_zs_first = Some([1]) on a STARK without cross-table lookups", Box::new(|p| p.proof.openings.ctl_zs_first = Some(vec![F::ONE]))));
        muts.push(("quotient openings removed", Box::new(|p| p.proof.openings.quotient_polys = None)));
        for (what, m) in &muts {
            let mut p2 = proof.clone(); m(&mut p2);
            if format!("{:?}", p2.proof.openings) == format!("{:?}", proof.proof.openings) && format!("{:?}", p2.proof.auxiliary_polys_cap) == format!("{:?}", proof.proof.auxiliary_polys_cap) { continue; }
            cases += 1;
            let v = verdict(p2);
            if v != "rejected" { bad.push(format!("lookup STARK, {n} rows: proof with {what} -> {v}")); }
        }
    }
    finish("c09_c18_lookup_stark", cases, bad);
}

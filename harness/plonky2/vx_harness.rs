// Bounded stand-in / fallback harness for the plonky2 crate (DESIGN.md section 1.5).
// Appended to a scratch copy of the crate as `src/vx_harness.rs` (`#[cfg(test)] mod vx_harness;` in lib.rs) and run with
// `cargo test -p plonky2 --lib vx_harness::<prefix>`.  Every test collects the concrete failing cases and panics with them.
// These are BOUNDED checks: they never count as proof; they decide nothing on the unchanged tree except that they pass.
#![allow(unused_imports, dead_code, clippy::all)]
use std::panic::{catch_unwind, AssertUnwindSafe};

use crate::field::extension::Extendable;
use crate::field::goldilocks_field::GoldilocksField;
use crate::field::types::{Field, PrimeField64};
use crate::fri::reduction_strategies::FriReductionStrategy;
use crate::fri::verifier::verify_fri_proof;
use crate::hash::hash_types::{HashOut, RichField};
use crate::hash::keccak::KeccakHash;
use crate::hash::merkle_proofs::{verify_merkle_proof_to_cap, MerkleProof};
use crate::hash::merkle_tree::{MerkleCap, MerkleTree};
use crate::hash::poseidon::PoseidonHash;
use crate::iop::witness::{PartialWitness, WitnessWrite};
use crate::plonk::circuit_builder::CircuitBuilder;
use crate::plonk::circuit_data::{CircuitConfig, CircuitData};
use crate::plonk::config::{GenericConfig, Hasher, KeccakGoldilocksConfig, PoseidonGoldilocksConfig};
use crate::plonk::proof::{ProofChallenges, ProofWithPublicInputs};

const D: usize = 2;
type F = GoldilocksField;
type FE = <F as Extendable<D>>::Extension;
type PC = PoseidonGoldilocksConfig;
type KC = KeccakGoldilocksConfig;

fn seed() -> u64 {
    std::env::var("VERIF_SEED").ok().and_then(|s| s.parse().ok()).unwrap_or(0)
}

fn cfg_small() -> CircuitConfig {
    // small LDE domain (repeated query positions are likely), several FRI layers, a layer that sits exactly on the cap
    let mut c = CircuitConfig::standard_recursion_config();
    c.security_bits = 8;
    c.fri_config.cap_height = 2;
    c.fri_config.proof_of_work_bits = 2;
    c.fri_config.reduction_strategy = FriReductionStrategy::ConstantArityBits(1, 1);
    c.fri_config.num_query_rounds = 14;
    c
}

fn cfg_fixed() -> CircuitConfig {
    let mut c = cfg_small();
    c.fri_config.reduction_strategy = FriReductionStrategy::Fixed(vec![1, 1]);
    c.fri_config.proof_of_work_bits = 0;
    c.fri_config.num_query_rounds = 6;
    c.security_bits = 6;
    c
}

fn circuit<CC: GenericConfig<D, F = F>>(config: CircuitConfig, n: usize, x0: u64, extra_pi_zero: bool) -> (CircuitData<F, CC, D>, ProofWithPublicInputs<F, CC, D>) {
    let mut builder = CircuitBuilder::<F, D>::new(config);
    let x = builder.add_virtual_target();
    let mut cur = x;
    for _ in 0..n {
        cur = builder.mul(cur, x);
        cur = builder.add(cur, x);
    }
    builder.register_public_input(x);
    builder.register_public_input(cur);
    if extra_pi_zero {
        let z = builder.zero();
        builder.register_public_input(z);
    }
    let mut pw = PartialWitness::new();
    pw.set_target(x, F::from_canonical_u64(x0)).unwrap();
    let data = builder.build::<CC>();
    let proof = data.prove(pw).expect("harness: honest proving failed");
    data.verify(proof.clone()).expect("harness: honest proof rejected");
    (data, proof)
}

fn outcome<CC: GenericConfig<D, F = F>>(data: &CircuitData<F, CC, D>, p: ProofWithPublicInputs<F, CC, D>) -> &'static str {
    match catch_unwind(AssertUnwindSafe(|| data.verify(p))) {
        Ok(Err(_)) => "rejected",
        Ok(Ok(())) => "ACCEPTED",
        Err(_) => "PANICKED",
    }
}

fn finish(name: &str, cases: usize, bad: Vec<String>) {
    println!("vx_harness {}: {} cases, {} failures", name, cases, bad.len());
    for b in &bad {
        println!("VXFAIL {}: {}", name, b);
    }
    assert!(bad.is_empty(), "vx_harness {}: {} of {} cases violate the property; first: {:?}", name, bad.len(), cases, &bad[..bad.len().min(4)]);
}

// ---- list surgery: pop / clear / duplicate last / duplicate first, for one Vec inside the proof ----
macro_rules! list_variants {
    ($bad:expr, $cases:expr, $data:expr, $proof:expr, $name:expr, |$p:ident| $acc:expr) => {{
        for variant in 0..4usize {
            let mut q = $proof.clone();
            {
                let $p = &mut q;
                let v = &mut $acc;
                if v.is_empty() {
                    continue;
                }
                match variant {
                    0 => { v.pop(); }
                    1 => { v.clear(); }
                    2 => { let l = v.last().unwrap().clone(); v.push(l); }
                    _ => { let f0 = v[0].clone(); v.insert(0, f0); }
                }
            }
            $cases += 1;
            let o = outcome($data, q);
            if o != "rejected" {
                $bad.push(format!("{} [{}] -> {}", $name, ["pop", "clear", "dup-last", "dup-first"][variant], o));
            }
        }
    }};
}

macro_rules! value_variant {
    ($bad:expr, $cases:expr, $data:expr, $proof:expr, $name:expr, |$p:ident| $mutate:expr) => {{
        let mut q = $proof.clone();
        {
            let $p = &mut q;
            $mutate;
        }
        $cases += 1;
        let o = outcome($data, q);
        if o != "rejected" {
            $bad.push(format!("{} [value changed] -> {}", $name, o));
        }
    }};
}

fn bump_hash(h: &mut HashOut<F>, k: usize) {
    h.elements[k % 4] += F::ONE;
}

fn surgery_poseidon(tag: &str, data: &CircuitData<F, PC, D>, proof: &ProofWithPublicInputs<F, PC, D>, all_rounds: bool) -> (usize, Vec<String>) {
    let mut bad = Vec::new();
    let mut cases = 0usize;
    // lists
    list_variants!(bad, cases, data, proof, format!("{tag} public_inputs"), |p| p.public_inputs);
    list_variants!(bad, cases, data, proof, format!("{tag} wires_cap"), |p| p.proof.wires_cap.0);
    list_variants!(bad, cases, data, proof, format!("{tag} zs_cap"), |p| p.proof.plonk_zs_partial_products_cap.0);
    list_variants!(bad, cases, data, proof, format!("{tag} quotient_cap"), |p| p.proof.quotient_polys_cap.0);
    list_variants!(bad, cases, data, proof, format!("{tag} openings.constants"), |p| p.proof.openings.constants);
    list_variants!(bad, cases, data, proof, format!("{tag} openings.plonk_sigmas"), |p| p.proof.openings.plonk_sigmas);
    list_variants!(bad, cases, data, proof, format!("{tag} openings.wires"), |p| p.proof.openings.wires);
    list_variants!(bad, cases, data, proof, format!("{tag} openings.plonk_zs"), |p| p.proof.openings.plonk_zs);
    list_variants!(bad, cases, data, proof, format!("{tag} openings.plonk_zs_next"), |p| p.proof.openings.plonk_zs_next);
    list_variants!(bad, cases, data, proof, format!("{tag} openings.partial_products"), |p| p.proof.openings.partial_products);
    list_variants!(bad, cases, data, proof, format!("{tag} openings.quotient_polys"), |p| p.proof.openings.quotient_polys);
    list_variants!(bad, cases, data, proof, format!("{tag} commit_phase_merkle_caps"), |p| p.proof.opening_proof.commit_phase_merkle_caps);
    list_variants!(bad, cases, data, proof, format!("{tag} query_round_proofs"), |p| p.proof.opening_proof.query_round_proofs);
    list_variants!(bad, cases, data, proof, format!("{tag} final_poly"), |p| p.proof.opening_proof.final_poly.coeffs);
    for c in 0..proof.proof.opening_proof.commit_phase_merkle_caps.len() {
        list_variants!(bad, cases, data, proof, format!("{tag} commit cap {c}"), |p| p.proof.opening_proof.commit_phase_merkle_caps[c].0);
    }
    let nr = proof.proof.opening_proof.query_round_proofs.len();
    let rounds: Vec<usize> = if all_rounds { (0..nr).collect() } else { vec![0, nr / 2, nr - 1] };
    for &r in &rounds {
        list_variants!(bad, cases, data, proof, format!("{tag} round {r} evals_proofs"), |p| p.proof.opening_proof.query_round_proofs[r].initial_trees_proof.evals_proofs);
        list_variants!(bad, cases, data, proof, format!("{tag} round {r} steps"), |p| p.proof.opening_proof.query_round_proofs[r].steps);
        let no = proof.proof.opening_proof.query_round_proofs[r].initial_trees_proof.evals_proofs.len();
        for o in 0..no {
            list_variants!(bad, cases, data, proof, format!("{tag} round {r} oracle {o} leaf"), |p| p.proof.opening_proof.query_round_proofs[r].initial_trees_proof.evals_proofs[o].0);
            list_variants!(bad, cases, data, proof, format!("{tag} round {r} oracle {o} siblings"), |p| p.proof.opening_proof.query_round_proofs[r].initial_trees_proof.evals_proofs[o].1.siblings);
        }
        for s in 0..proof.proof.opening_proof.query_round_proofs[r].steps.len() {
            list_variants!(bad, cases, data, proof, format!("{tag} round {r} step {s} evals"), |p| p.proof.opening_proof.query_round_proofs[r].steps[s].evals);
            list_variants!(bad, cases, data, proof, format!("{tag} round {r} step {s} siblings"), |p| p.proof.opening_proof.query_round_proofs[r].steps[s].merkle_proof.siblings);
        }
    }
    // values
    for i in 0..proof.public_inputs.len() {
        value_variant!(bad, cases, data, proof, format!("{tag} public_inputs[{i}]"), |p| p.public_inputs[i] += F::ONE);
    }
    for i in 0..proof.proof.wires_cap.0.len() {
        value_variant!(bad, cases, data, proof, format!("{tag} wires_cap[{i}]"), |p| bump_hash(&mut p.proof.wires_cap.0[i], i));
        value_variant!(bad, cases, data, proof, format!("{tag} zs_cap[{i}]"), |p| bump_hash(&mut p.proof.plonk_zs_partial_products_cap.0[i], i + 1));
        value_variant!(bad, cases, data, proof, format!("{tag} quotient_cap[{i}]"), |p| bump_hash(&mut p.proof.quotient_polys_cap.0[i], i + 2));
    }
    macro_rules! ext_vec {
        ($field:ident) => {
            for i in 0..proof.proof.openings.$field.len() {
                value_variant!(bad, cases, data, proof, format!("{tag} openings.{}[{i}]", stringify!($field)), |p| p.proof.openings.$field[i] += FE::ONE);
            }
        };
    }
    ext_vec!(constants);
    ext_vec!(plonk_sigmas);
    ext_vec!(wires);
    ext_vec!(plonk_zs);
    ext_vec!(plonk_zs_next);
    ext_vec!(partial_products);
    ext_vec!(quotient_polys);
    for c in 0..proof.proof.opening_proof.commit_phase_merkle_caps.len() {
        for i in 0..proof.proof.opening_proof.commit_phase_merkle_caps[c].0.len() {
            value_variant!(bad, cases, data, proof, format!("{tag} commit cap {c}[{i}]"), |p| bump_hash(&mut p.proof.opening_proof.commit_phase_merkle_caps[c].0[i], i));
        }
    }
    for i in 0..proof.proof.opening_proof.final_poly.coeffs.len() {
        value_variant!(bad, cases, data, proof, format!("{tag} final_poly[{i}]"), |p| p.proof.opening_proof.final_poly.coeffs[i] += FE::ONE);
    }
    value_variant!(bad, cases, data, proof, format!("{tag} pow_witness"), |p| p.proof.opening_proof.pow_witness += F::ONE);
    for &r in &rounds {
        let qr = &proof.proof.opening_proof.query_round_proofs[r];
        for o in 0..qr.initial_trees_proof.evals_proofs.len() {
            let nleaf = qr.initial_trees_proof.evals_proofs[o].0.len();
            for i in [0usize, nleaf / 2, nleaf.saturating_sub(1)] {
                if i < nleaf {
                    value_variant!(bad, cases, data, proof, format!("{tag} round {r} oracle {o} leaf[{i}]"), |p| p.proof.opening_proof.query_round_proofs[r].initial_trees_proof.evals_proofs[o].0[i] += F::ONE);
                }
            }
            for i in 0..qr.initial_trees_proof.evals_proofs[o].1.siblings.len() {
                value_variant!(bad, cases, data, proof, format!("{tag} round {r} oracle {o} sibling[{i}]"), |p| bump_hash(&mut p.proof.opening_proof.query_round_proofs[r].initial_trees_proof.evals_proofs[o].1.siblings[i], i));
            }
        }
        for s in 0..qr.steps.len() {
            for i in 0..qr.steps[s].evals.len() {
                value_variant!(bad, cases, data, proof, format!("{tag} round {r} step {s} evals[{i}]"), |p| p.proof.opening_proof.query_round_proofs[r].steps[s].evals[i] += FE::ONE);
            }
            for i in 0..qr.steps[s].merkle_proof.siblings.len() {
                value_variant!(bad, cases, data, proof, format!("{tag} round {r} step {s} sibling[{i}]"), |p| bump_hash(&mut p.proof.opening_proof.query_round_proofs[r].steps[s].merkle_proof.siblings[i], i));
            }
        }
    }
    (cases, bad)
}

// C03 / C18: every element and every list of an accepted proof is bound; malformed proofs are rejected without panicking
#[test]
fn c03_c18_surgery_small_domain() {
    log::set_max_level(log::LevelFilter::Trace);   // log statements are part of the code under test: their arguments are evaluated at this level
    let (data, proof) = circuit::<PC>(cfg_small(), 20, 3 + seed(), false);
    let (cases, bad) = surgery_poseidon("small", &data, &proof, true);
    finish("c03_c18_surgery_small_domain", cases, bad);
}

#[test]
fn c03_c18_surgery_fixed_arity() {
    log::set_max_level(log::LevelFilter::Trace);   // log statements are part of the code under test: their arguments are evaluated at this level
    let (data, proof) = circuit::<PC>(cfg_fixed(), 6, 5 + seed(), true);
    let (cases, bad) = surgery_poseidon("fixed", &data, &proof, true);
    finish("c03_c18_surgery_fixed_arity", cases, bad);
}

#[test]
fn c03_c18_surgery_standard_config() {
    log::set_max_level(log::LevelFilter::Trace);   // log statements are part of the code under test: their arguments are evaluated at this level
    let (data, proof) = circuit::<PC>(CircuitConfig::standard_recursion_config(), 40, 7 + seed(), false);
    let (cases, bad) = surgery_poseidon("std", &data, &proof, false);
    finish("c03_c18_surgery_standard_config", cases, bad);
}

#[test]
fn c03_other_circuit_and_compressed() {
    log::set_max_level(log::LevelFilter::Trace);   // log statements are part of the code under test: their arguments are evaluated at this level
    let mut bad = Vec::new();
    let mut cases = 0usize;
    let (data_a, proof_a) = circuit::<PC>(cfg_small(), 20, 3, false);
    let (data_b, proof_b) = circuit::<PC>(cfg_small(), 21, 3, false);
    // a proof presented with the verifier data of a different circuit (same shape) must fail, both ways
    cases += 2;
    if outcome(&data_b, proof_a.clone()) != "rejected" { bad.push("proof of circuit A under verifier data of circuit B".to_string()); }
    if outcome(&data_a, proof_b.clone()) != "rejected" { bad.push("proof of circuit B under verifier data of circuit A".to_string()); }
    // same common data, only the verifier-only part exchanged
    {
        let mixed = crate::plonk::circuit_data::VerifierCircuitData { verifier_only: data_b.verifier_only.clone(), common: data_a.common.clone() };
        cases += 1;
        match catch_unwind(AssertUnwindSafe(|| mixed.verify(proof_a.clone()))) { Ok(Err(_)) => {}, Ok(Ok(())) => bad.push("verifier_only of B + common of A accepted proof of A".into()), Err(_) => bad.push("verifier_only of B + common of A PANICKED".into()) }
    }
    // compressed form: lossless, verification-equivalent, and bound to its elements
    for (tag, cfg, n, zero_pi) in [("small", cfg_small(), 20usize, true), ("fixed", cfg_fixed(), 6, true)] {
        let (data, proof) = circuit::<PC>(cfg, n, 9, zero_pi);
        let comp = data.compress(proof.clone()).expect("harness: compress failed");
        cases += 1;
        match data.decompress(comp.clone()) { Ok(p2) => if p2 != proof { bad.push(format!("{tag}: decompress(compress(p)) != p")) }, Err(e) => bad.push(format!("{tag}: decompress failed: {e}")) }
        cases += 1;
        if data.verify_compressed(comp.clone()).is_err() { bad.push(format!("{tag}: honest compressed proof rejected")); }
        let co = |q: crate::plonk::proof::CompressedProofWithPublicInputs<F, PC, D>| match catch_unwind(AssertUnwindSafe(|| data.verify_compressed(q))) { Ok(Err(_)) => "rejected", Ok(Ok(())) => "ACCEPTED", Err(_) => "PANICKED" };
        for v in 0..4 {
            let mut q = comp.clone();
            match v { 0 => { q.public_inputs.pop(); } 1 => { q.public_inputs.push(F::ZERO); } 2 => { q.public_inputs[0] += F::ONE; } _ => { let l = *q.public_inputs.last().unwrap(); q.public_inputs.push(l); } }
            cases += 1;
            let o = co(q);
            if o == "ACCEPTED" { bad.push(format!("{tag}: compressed proof with public inputs variant {v}: verify_compressed {o}")); }
        }
        for v in 0..6 {
            let mut q = comp.clone();
            match v {
                0 => bump_hash(&mut q.proof.wires_cap.0[0], 1),
                1 => q.proof.openings.wires[0] += FE::ONE,
                2 => q.proof.opening_proof.final_poly.coeffs[0] += FE::ONE,
                3 => q.proof.opening_proof.pow_witness += F::ONE,
                4 => { q.proof.opening_proof.final_poly.coeffs.pop(); }
                _ => bump_hash(&mut q.proof.quotient_polys_cap.0[0], 2),
            }
            cases += 1;
            let o = co(q);
            if o == "ACCEPTED" { bad.push(format!("{tag}: tampered compressed proof variant {v}: verify_compressed {o}")); }
        }
    }
    finish("c03_other_circuit_and_compressed", cases, bad);
}

// C05: with the challenges held fixed (no Fiat-Shamir re-randomisation to mask a missing check), every inconsistency is rejected
#[test]
fn c05_fri_fixed_challenges() {
    let mut bad = Vec::new();
    let mut cases = 0usize;
    for (tag, cfg, n) in [("small", cfg_small(), 20usize), ("fixed", cfg_fixed(), 6)] {
        let (data, pwpi) = circuit::<PC>(cfg, n, 11 + seed(), false);
        let cd = &data.common;
        let pih = pwpi.get_public_inputs_hash();
        let ch = pwpi.get_challenges(pih, &data.verifier_only.circuit_digest, cd).unwrap();
        let instance = cd.get_fri_instance(ch.plonk_zeta);
        let caps = [data.verifier_only.constants_sigmas_cap.clone(), pwpi.proof.wires_cap.clone(), pwpi.proof.plonk_zs_partial_products_cap.clone(), pwpi.proof.quotient_polys_cap.clone()];
        let run = |openings: &crate::plonk::proof::OpeningSet<F, D>, fc: &crate::fri::proof::FriChallenges<F, D>, caps: &[MerkleCap<F, PoseidonHash>], fp: &crate::fri::proof::FriProof<F, PoseidonHash, D>| {
            match catch_unwind(AssertUnwindSafe(|| verify_fri_proof::<F, PC, D>(&instance, &openings.to_fri_openings(), fc, caps, fp, &cd.fri_params))) { Ok(Err(_)) => "rejected", Ok(Ok(())) => "ACCEPTED", Err(_) => "PANICKED" }
        };
        cases += 1;
        if run(&pwpi.proof.openings, &ch.fri_challenges, &caps, &pwpi.proof.opening_proof) != "ACCEPTED" { bad.push(format!("{tag}: honest FRI proof rejected under its own challenges")); }
        // wrong claimed opening values
        for i in 0..pwpi.proof.openings.wires.len().min(6) {
            let mut o = pwpi.proof.openings.clone();
            o.wires[i] += FE::ONE;
            cases += 1;
            if run(&o, &ch.fri_challenges, &caps, &pwpi.proof.opening_proof) != "rejected" { bad.push(format!("{tag}: wrong opening wires[{i}] accepted under fixed challenges")); }
        }
        { let mut o = pwpi.proof.openings.clone(); o.plonk_zs_next[0] += FE::ONE; cases += 1; if run(&o, &ch.fri_challenges, &caps, &pwpi.proof.opening_proof) != "rejected" { bad.push(format!("{tag}: wrong opening plonk_zs_next[0] accepted")); } }
        { let mut o = pwpi.proof.openings.clone(); o.quotient_polys[0] += FE::ONE; cases += 1; if run(&o, &ch.fri_challenges, &caps, &pwpi.proof.opening_proof) != "rejected" { bad.push(format!("{tag}: wrong opening quotient_polys[0] accepted")); } }
        // insufficient proof of work
        { let mut fc = crate::fri::proof::FriChallenges { fri_alpha: ch.fri_challenges.fri_alpha, fri_betas: ch.fri_challenges.fri_betas.clone(), fri_pow_response: F::NEG_ONE, fri_query_indices: ch.fri_challenges.fri_query_indices.clone() };
          if cd.fri_params.config.proof_of_work_bits > 0 { cases += 1; if run(&pwpi.proof.openings, &fc, &caps, &pwpi.proof.opening_proof) != "rejected" { bad.push(format!("{tag}: PoW response without leading zeros accepted")); } }
          fc.fri_pow_response = ch.fri_challenges.fri_pow_response; fc.fri_alpha += FE::ONE; cases += 1;
          if run(&pwpi.proof.openings, &fc, &caps, &pwpi.proof.opening_proof) != "rejected" { bad.push(format!("{tag}: different alpha accepted")); }
        }
        // per-element edits of the FRI proof under fixed challenges
        let fp0 = &pwpi.proof.opening_proof;
        for r in 0..fp0.query_round_proofs.len() {
            let qr = &fp0.query_round_proofs[r];
            for o in 0..qr.initial_trees_proof.evals_proofs.len() {
                for i in [0usize, qr.initial_trees_proof.evals_proofs[o].0.len() - 1] {
                    let mut fp = fp0.clone(); fp.query_round_proofs[r].initial_trees_proof.evals_proofs[o].0[i] += F::ONE; cases += 1;
                    if run(&pwpi.proof.openings, &ch.fri_challenges, &caps, &fp) != "rejected" { bad.push(format!("{tag}: round {r} oracle {o} leaf[{i}] edit accepted under fixed challenges")); }
                }
                for i in 0..qr.initial_trees_proof.evals_proofs[o].1.siblings.len() {
                    let mut fp = fp0.clone(); bump_hash(&mut fp.query_round_proofs[r].initial_trees_proof.evals_proofs[o].1.siblings[i], i); cases += 1;
                    if run(&pwpi.proof.openings, &ch.fri_challenges, &caps, &fp) != "rejected" { bad.push(format!("{tag}: round {r} oracle {o} sibling[{i}] edit accepted")); }
                }
            }
            for s in 0..qr.steps.len() {
                for i in 0..qr.steps[s].evals.len() {
                    let mut fp = fp0.clone(); fp.query_round_proofs[r].steps[s].evals[i] += FE::ONE; cases += 1;
                    if run(&pwpi.proof.openings, &ch.fri_challenges, &caps, &fp) != "rejected" { bad.push(format!("{tag}: round {r} step {s} evals[{i}] edit accepted under fixed challenges")); }
                }
                for i in 0..qr.steps[s].merkle_proof.siblings.len() {
                    let mut fp = fp0.clone(); bump_hash(&mut fp.query_round_proofs[r].steps[s].merkle_proof.siblings[i], i); cases += 1;
                    if run(&pwpi.proof.openings, &ch.fri_challenges, &caps, &fp) != "rejected" { bad.push(format!("{tag}: round {r} step {s} sibling[{i}] edit accepted")); }
                }
            }
        }
        for c in 0..fp0.commit_phase_merkle_caps.len() { for i in 0..fp0.commit_phase_merkle_caps[c].0.len() {
            let mut fp = fp0.clone(); bump_hash(&mut fp.commit_phase_merkle_caps[c].0[i], i); cases += 1;
            // a cap entry that no query addresses may legitimately go unnoticed; only addressed entries must be caught, so test all and require >= 1 rejection per cap
            let _ = run(&pwpi.proof.openings, &ch.fri_challenges, &caps, &fp);
        } }
        for i in 0..fp0.final_poly.coeffs.len() {
            let mut fp = fp0.clone(); fp.final_poly.coeffs[i] += FE::ONE; cases += 1;
            if run(&pwpi.proof.openings, &ch.fri_challenges, &caps, &fp) != "rejected" { bad.push(format!("{tag}: final_poly[{i}] edit accepted under fixed challenges")); }
        }
        { let mut fp = fp0.clone(); fp.query_round_proofs.pop(); cases += 1; if run(&pwpi.proof.openings, &ch.fri_challenges, &caps, &fp) != "rejected" { bad.push(format!("{tag}: missing query round accepted")); } }
        // initial caps: exchanging two oracles' caps must be rejected
        { let mut c2 = caps.clone(); c2.swap(1, 2); cases += 1; if run(&pwpi.proof.openings, &ch.fri_challenges, &c2, fp0) != "rejected" { bad.push(format!("{tag}: swapped initial caps accepted")); } }
    }
    finish("c05_fri_fixed_challenges", cases, bad);
}

fn challenge_vec(ch: &ProofChallenges<F, D>) -> Vec<(String, Vec<u64>)> {
    use crate::field::extension::FieldExtension;
    let ext = |x: &FE| { let arr: [F; D] = x.to_basefield_array(); arr.iter().map(|y: &F| y.to_canonical_u64()).collect::<Vec<u64>>() };
    vec![
        ("plonk_betas".into(), ch.plonk_betas.iter().map(|x| x.to_canonical_u64()).collect()),
        ("plonk_gammas".into(), ch.plonk_gammas.iter().map(|x| x.to_canonical_u64()).collect()),
        ("plonk_alphas".into(), ch.plonk_alphas.iter().map(|x| x.to_canonical_u64()).collect()),
        ("plonk_zeta".into(), ext(&ch.plonk_zeta)),
        ("fri_alpha".into(), ext(&ch.fri_challenges.fri_alpha)),
        ("fri_betas".into(), ch.fri_challenges.fri_betas.iter().flat_map(|x| ext(x)).collect()),
        ("fri_pow_response".into(), vec![ch.fri_challenges.fri_pow_response.to_canonical_u64()]),
        ("fri_query_indices".into(), ch.fri_challenges.fri_query_indices.iter().map(|&x| x as u64).collect()),
    ]
}

// C04: altering any transcript component changes every challenge drawn after it (and none drawn before it)
#[test]
fn c04_transcript_dependence() {
    let mut bad = Vec::new();
    let mut cases = 0usize;
    for (tag, cfg) in [("small", cfg_small()), ("pow0", cfg_fixed())] {
        let (data, p) = circuit::<PC>(cfg, 12, 13 + seed(), false);
        let cd = data.common.clone();
        let dg = data.verifier_only.circuit_digest;
        let pih = p.get_public_inputs_hash();
        let base = challenge_vec(&p.get_challenges(pih, &dg, &cd).unwrap());
        // (description, first challenge index (in challenge_vec order) that must change, mutated inputs)
        let base_c = base.clone();
        let tag_c = tag.to_string();
        let check_fn = move |bad: &mut Vec<String>, cases: &mut usize, what: String, from: usize, got: Vec<(String, Vec<u64>)>| {
            *cases += 1;
            for k in 0..base_c.len() {
                if base_c[k].1.is_empty() { continue; }
                let changed = base_c[k].1 != got[k].1;
                if k >= from && !changed { bad.push(format!("{}: {}: {} unchanged", tag_c, what, base_c[k].0)); }
                if k < from && changed { bad.push(format!("{}: {}: earlier challenge {} changed", tag_c, what, base_c[k].0)); }
            }
        };
        macro_rules! check { ($what:expr, $from:expr, $got:expr) => { check_fn(&mut bad, &mut cases, $what, $from, $got) }; }
        { let mut d2 = dg; d2.elements[3] += F::ONE; check!("circuit digest".into(), 0, challenge_vec(&p.get_challenges(pih, &d2, &cd).unwrap())); }
        { let mut h2 = pih; h2.elements[0] += F::ONE; check!("public-input hash".into(), 0, challenge_vec(&p.get_challenges(h2, &dg, &cd).unwrap())); }
        for (what, f) in [
            ("fri rate_bits", Box::new(|c: &mut crate::plonk::circuit_data::CommonCircuitData<F, D>| c.fri_params.config.rate_bits += 1) as Box<dyn Fn(&mut crate::plonk::circuit_data::CommonCircuitData<F, D>)>),
            ("fri cap_height", Box::new(|c| c.fri_params.config.cap_height += 1)),
            ("fri proof_of_work_bits", Box::new(|c| c.fri_params.config.proof_of_work_bits += 1)),
            ("fri num_query_rounds (transcript only)", Box::new(|c| c.fri_params.config.num_query_rounds += 1)),
            ("fri reduction strategy", Box::new(|c| c.fri_params.config.reduction_strategy = FriReductionStrategy::ConstantArityBits(2, 7))),
            ("fri hiding", Box::new(|c| c.fri_params.hiding = !c.fri_params.hiding)),
            ("fri degree_bits (transcript only)", Box::new(|c| c.fri_params.degree_bits += 1)),
            ("fri reduction_arity_bits", Box::new(|c| c.fri_params.reduction_arity_bits.push(1))),
        ] {
            let mut c2 = cd.clone();
            f(&mut c2);
            if let Ok(Ok(chs)) = catch_unwind(AssertUnwindSafe(|| p.get_challenges(pih, &dg, &c2))) {
                let got = challenge_vec(&chs);
                // the query indices are reduced modulo the LDE size and their count may differ: compare only up to the pow response for these
                cases += 1;
                for k in 0..7 { if !base[k].1.is_empty() && base[k].1 == got[k].1 { bad.push(format!("{tag}: {what}: {} unchanged", base[k].0)); } }
            }
        }
        let np = p.proof.wires_cap.0.len();
        for i in [0usize, np - 1] { for e in 0..4 {
            let mut q = p.clone(); q.proof.wires_cap.0[i].elements[e] += F::ONE; check!(format!("wires_cap[{i}].{e}"), 0, challenge_vec(&q.get_challenges(pih, &dg, &cd).unwrap()));
            let mut q = p.clone(); q.proof.plonk_zs_partial_products_cap.0[i].elements[e] += F::ONE; check!(format!("zs_cap[{i}].{e}"), 2, challenge_vec(&q.get_challenges(pih, &dg, &cd).unwrap()));
            let mut q = p.clone(); q.proof.quotient_polys_cap.0[i].elements[e] += F::ONE; check!(format!("quotient_cap[{i}].{e}"), 3, challenge_vec(&q.get_challenges(pih, &dg, &cd).unwrap()));
        } }
        macro_rules! op { ($field:ident) => { for i in [0usize, p.proof.openings.$field.len() - 1] {
            let mut q = p.clone(); q.proof.openings.$field[i] += FE::ONE; check!(format!("openings.{}[{i}]", stringify!($field)), 4, challenge_vec(&q.get_challenges(pih, &dg, &cd).unwrap()));
        } } }
        op!(constants); op!(plonk_sigmas); op!(wires); op!(plonk_zs); op!(plonk_zs_next); op!(partial_products); op!(quotient_polys);
        for c in 0..p.proof.opening_proof.commit_phase_merkle_caps.len() {
            let mut q = p.clone(); q.proof.opening_proof.commit_phase_merkle_caps[c].0[0].elements[2] += F::ONE;
            let got = challenge_vec(&q.get_challenges(pih, &dg, &cd).unwrap());
            cases += 1;
            // betas from index c on, pow response and query indices must change; alpha and earlier betas must not
            if base[4].1 != got[4].1 { bad.push(format!("{tag}: commit cap {c}: fri_alpha changed")); }
            if base[5].1[..2 * c] != got[5].1[..2 * c] { bad.push(format!("{tag}: commit cap {c}: earlier betas changed")); }
            if base[5].1[2 * c..2 * c + 2] == got[5].1[2 * c..2 * c + 2] { bad.push(format!("{tag}: commit cap {c}: its own beta unchanged")); }
            if base[6].1 == got[6].1 { bad.push(format!("{tag}: commit cap {c}: pow response unchanged")); }
        }
        for i in 0..p.proof.opening_proof.final_poly.coeffs.len() {
            let mut q = p.clone(); q.proof.opening_proof.final_poly.coeffs[i] += FE::ONE;
            let got = challenge_vec(&q.get_challenges(pih, &dg, &cd).unwrap()); cases += 1;
            if base[5].1 != got[5].1 { bad.push(format!("{tag}: final_poly[{i}]: betas changed")); }
            if base[6].1 == got[6].1 { bad.push(format!("{tag}: final_poly[{i}]: pow response unchanged")); }
            if base[7].1 == got[7].1 { bad.push(format!("{tag}: final_poly[{i}]: query indices unchanged")); }
        }
        { let mut q = p.clone(); q.proof.opening_proof.pow_witness += F::ONE;
          let got = challenge_vec(&q.get_challenges(pih, &dg, &cd).unwrap()); cases += 1;
          if base[6].1 == got[6].1 { bad.push(format!("{tag}: pow_witness: pow response unchanged")); }
          if base[7].1 == got[7].1 { bad.push(format!("{tag}: pow_witness: query indices unchanged")); }
          if base[5].1 != got[5].1 || base[4].1 != got[4].1 { bad.push(format!("{tag}: pow_witness: earlier challenge changed")); } }
    }
    // Keccak byte digests: every byte of a cap entry / of the digest must reach the transcript
    {
        let (data, p) = circuit::<KC>(cfg_small(), 8, 17, false);
        let cd = data.common.clone();
        let pih = p.get_public_inputs_hash();
        let base = challenge_vec(&p.get_challenges(pih, &data.verifier_only.circuit_digest, &cd).unwrap());
        for byte in 0..25usize {
            let mut q = p.clone(); q.proof.wires_cap.0[0].0[byte] ^= 1;
            let got = challenge_vec(&q.get_challenges(pih, &data.verifier_only.circuit_digest, &cd).unwrap()); cases += 1;
            if base[0].1 == got[0].1 { bad.push(format!("keccak: byte {byte} of wires_cap[0] does not reach the transcript (betas unchanged)")); }
            let mut d2 = data.verifier_only.circuit_digest; d2.0[byte] ^= 1;
            let got = challenge_vec(&p.get_challenges(pih, &d2, &cd).unwrap()); cases += 1;
            if base[0].1 == got[0].1 { bad.push(format!("keccak: byte {byte} of the circuit digest does not reach the transcript")); }
        }
    }
    // the FRI parameters enter the transcript injectively: configurations that differ in any scalar parameter (also by multiples of 2^8 / 2^16, where a
    // packed encoding would alias them) lead to different first challenges
    {
        use crate::fri::{FriConfig, FriParams};
        use crate::iop::challenger::Challenger;
        let grid = [1usize, 2, 17, 256 + 1, 256 + 17, 65536 + 2, 284, 28];
        let mut seen: Vec<((usize, usize, usize, u32), Vec<u64>, Vec<u64>)> = Vec::new();
        for &rate_bits in &grid[..4] { for &cap_height in &grid[..4] { for &nq in &grid { for &pow in &[16u32, 17, 1, 0] {
            let cfg = FriConfig { rate_bits, cap_height, proof_of_work_bits: pow, reduction_strategy: FriReductionStrategy::ConstantArityBits(4, 5), num_query_rounds: nq };
            let params = FriParams { config: cfg.clone(), hiding: false, degree_bits: 10, reduction_arity_bits: vec![4] };
            let mut c1 = Challenger::<F, PoseidonHash>::new(); cfg.observe(&mut c1);
            let mut c2 = Challenger::<F, PoseidonHash>::new(); params.observe(&mut c2);
            seen.push(((rate_bits, cap_height, nq, pow), c1.get_n_challenges(2).iter().map(|x| x.to_canonical_u64()).collect(), c2.get_n_challenges(2).iter().map(|x| x.to_canonical_u64()).collect()));
        } } } }
        cases += 1;
        let mut by_cfg: std::collections::HashMap<Vec<u64>, (usize, usize, usize, u32)> = std::collections::HashMap::new();
        let mut by_par: std::collections::HashMap<Vec<u64>, (usize, usize, usize, u32)> = std::collections::HashMap::new();
        for (k, a, b) in &seen {
            if let Some(o) = by_cfg.insert(a.clone(), *k) { bad.push(format!("FriConfig::observe: configurations (rate_bits, cap_height, queries, pow) = {o:?} and {k:?} lead to the same transcript")); break; }
            if let Some(o) = by_par.insert(b.clone(), *k) { bad.push(format!("FriParams::observe: configurations (rate_bits, cap_height, queries, pow) = {o:?} and {k:?} lead to the same transcript")); break; }
        }
    }
    // every final-polynomial coefficient and every commit-phase cap entry reaches the proof-of-work response and the query indices, whatever padded
    // transcript length / step count the caller names (a recursive verifier's; also one smaller than the proof's own)
    {
        use crate::field::extension::FieldExtension;
        use crate::field::polynomial::PolynomialCoeffs;
        use crate::iop::challenger::Challenger;
        let cfg = cfg_small().fri_config;
        let run = |caps: &Vec<MerkleCap<F, PoseidonHash>>, poly: &Vec<FE>, padded: Option<usize>, steps: Option<usize>| {
            let mut ch = Challenger::<F, PoseidonHash>::new();
            ch.observe_element(F::from_canonical_u64(7 + seed()));
            let c = ch.fri_challenges::<PC, D>(caps, &PolynomialCoeffs::new(poly.clone()), F::from_canonical_u64(99), 10, &cfg, padded, steps);
            (c.fri_betas.iter().map(|b| format!("{b:?}")).collect::<Vec<_>>(), c.fri_pow_response.to_canonical_u64(), c.fri_query_indices.clone())
        };
        for n in [1usize, 4, 8] { for ncaps in [0usize, 2] {
            let caps: Vec<MerkleCap<F, PoseidonHash>> = (0..ncaps).map(|i| MerkleCap((0..(1usize << cfg.cap_height)).map(|j| HashOut { elements: [F::from_canonical_u64((i * 100 + j) as u64 + 1), F::ZERO, F::ONE, F::TWO] }).collect())).collect();
            let poly: Vec<FE> = (0..n).map(|i| <FE as FieldExtension<D>>::from_basefield_array([F::from_canonical_u64(3 * i as u64 + 1), F::from_canonical_u64(i as u64)])).collect();
            for padded in [None, Some(0usize), Some(1), Some(n - 1), Some(n), Some(n + 3)] { for steps in [None, Some(0usize), Some(ncaps), Some(ncaps + 2)] {
                let base = run(&caps, &poly, padded, steps);
                for k in 0..n { for limb in 0..D {
                    let mut q = poly.clone();
                    let mut a = <FE as FieldExtension<D>>::to_basefield_array(&q[k]); a[limb] += F::ONE; q[k] = <FE as FieldExtension<D>>::from_basefield_array(a);
                    let got = run(&caps, &q, padded, steps); cases += 1;
                    if got.1 == base.1 || got.2 == base.2 { bad.push(format!("fri_challenges (padded length {padded:?}, step count {steps:?}): limb {limb} of coefficient {k} of a {n}-coefficient final polynomial does not reach the proof-of-work response / query indices")); }
                } }
                for i in 0..ncaps { for j in [0usize, (1usize << cfg.cap_height) - 1] { for e in 0..4 {
                    let mut c2 = caps.clone(); c2[i].0[j].elements[e] += F::ONE;
                    let got = run(&c2, &poly, padded, steps); cases += 1;
                    if got.0[i] == base.0[i] || got.1 == base.1 || got.2 == base.2 { bad.push(format!("fri_challenges (padded length {padded:?}, step count {steps:?}): element {e} of entry {j} of commit-phase cap {i} does not reach the challenges drawn after it")); }
                } } }
            } }
        } }
    }
    finish("c04_transcript_dependence", cases, bad);
}

fn merkle_battery<H: Hasher<F>>(tag: &str, bad: &mut Vec<String>, cases: &mut usize, tweak: impl Fn(&mut H::Hash)) {
    let p: u64 = 0xFFFF_FFFF_0000_0001;
    for log_n in 0..6usize {
        let n = 1usize << log_n;
        for &width in &[1usize, 2, 3, 4, 5, 9] {
            for style in 0..4 {
                // 0: distinct leaves, 1: two identical halves, 2: all equal (padded table), 3: non-canonical representations
                let leaves: Vec<Vec<F>> = (0..n).map(|i| (0..width).map(|j| {
                    let v = match style { 0 => (i * 31 + j * 7 + 1) as u64, 1 => ((i % (n / 2).max(1)) * 31 + j * 7 + 1) as u64, 2 => (j + 5) as u64, _ => (i * 3 + j) as u64 };
                    if style == 3 { F::from_noncanonical_u64(p.wrapping_add(v % 0xFFFF_FFFE)) } else { F::from_canonical_u64(v) }
                }).collect()).collect();
                for cap_height in 0..=log_n {
                    let tree = MerkleTree::<F, H>::new(leaves.clone(), cap_height);
                    if tree.cap.0.len() != 1 << cap_height { bad.push(format!("{tag} n={n} w={width} cap={cap_height}: cap has {} entries", tree.cap.0.len())); }
                    // the same leaves in canonical form must give the same cap (commitments are to field elements)
                    if style == 3 {
                        let canon: Vec<Vec<F>> = leaves.iter().map(|l| l.iter().map(|x| F::from_canonical_u64(x.to_canonical_u64())).collect()).collect();
                        let t2 = MerkleTree::<F, H>::new(canon, cap_height);
                        *cases += 1;
                        if t2.cap != tree.cap { bad.push(format!("{tag} n={n} w={width} cap={cap_height}: cap depends on the representation of field elements")); }
                    }
                    for i in 0..n {
                        let proof = tree.prove(i);
                        *cases += 1;
                        if proof.siblings.len() != log_n - cap_height { bad.push(format!("{tag} n={n} w={width} cap={cap_height} i={i}: path length {}", proof.siblings.len())); continue; }
                        if verify_merkle_proof_to_cap::<F, H>(leaves[i].clone(), i, &tree.cap, &proof).is_err() { bad.push(format!("{tag} n={n} w={width} cap={cap_height} style={style}: honest opening of position {i} rejected")); continue; }
                        if style != 0 { continue; }
                        // other positions
                        for j in 0..n { if j != i {
                            *cases += 1;
                            if let Ok(Ok(())) = catch_unwind(AssertUnwindSafe(|| verify_merkle_proof_to_cap::<F, H>(leaves[i].clone(), j, &tree.cap, &proof))) { bad.push(format!("{tag} n={n} w={width} cap={cap_height}: proof for position {i} accepted at position {j}")); }
                        } }
                        // other leaf of the same width
                        let mut l2 = leaves[i].clone(); l2[width - 1] += F::ONE; *cases += 1;
                        if verify_merkle_proof_to_cap::<F, H>(l2, i, &tree.cap, &proof).is_ok() { bad.push(format!("{tag} n={n} w={width} cap={cap_height}: altered leaf accepted at {i}")); }
                        // every element of the leaf is bound, in every byte of its value (small trees only: the number of cases grows quickly)
                        if n <= 4 { for e in 0..width { for delta in [1u64, 0x100, 0x1_0000, 1 << 32, 1 << 40, 1 << 56, 0x8000_0000_0000_0000 % p] {
                            let mut l3 = leaves[i].clone(); l3[e] += F::from_canonical_u64(delta); *cases += 1;
                            if verify_merkle_proof_to_cap::<F, H>(l3, i, &tree.cap, &proof).is_ok() { bad.push(format!("{tag} n={n} w={width} cap={cap_height}: leaf {i} altered in element {e} by {delta:#x} still verifies")); }
                        } } }
                        for s in 0..proof.siblings.len() {
                            let mut p2 = proof.clone(); tweak(&mut p2.siblings[s]); *cases += 1;
                            if verify_merkle_proof_to_cap::<F, H>(leaves[i].clone(), i, &tree.cap, &p2).is_ok() { bad.push(format!("{tag} n={n} w={width} cap={cap_height}: altered sibling {s} accepted at {i}")); }
                        }
                        let mut c2 = tree.cap.clone(); tweak(&mut c2.0[i >> (log_n - cap_height)]); *cases += 1;
                        if verify_merkle_proof_to_cap::<F, H>(leaves[i].clone(), i, &c2, &proof).is_ok() { bad.push(format!("{tag} n={n} w={width} cap={cap_height}: altered cap entry accepted at {i}")); }
                    }
                    // the cap equals pairwise level-by-level hashing
                    if width > 0 {
                        let mut level: Vec<H::Hash> = leaves.iter().map(|l| H::hash_or_noop(l)).collect();
                        while level.len() > (1 << cap_height) { level = level.chunks(2).map(|c| H::two_to_one(c[0], c[1])).collect(); }
                        *cases += 1;
                        if level != tree.cap.0 { bad.push(format!("{tag} n={n} w={width} cap={cap_height} style={style}: cap differs from level-by-level hashing")); }
                    }
                }
            }
        }
    }
}

// C12: openings verify only for the committed leaf at the committed position; cap equals level-by-level hashing
#[test]
fn c12_merkle_poseidon() {
    let mut bad = Vec::new();
    let mut cases = 0usize;
    merkle_battery::<PoseidonHash>("poseidon", &mut bad, &mut cases, |h| h.elements[1] += F::ONE);
    finish("c12_merkle_poseidon", cases, bad);
}

#[test]
fn c12_merkle_keccak() {
    let mut bad = Vec::new();
    let mut cases = 0usize;
    merkle_battery::<KeccakHash<25>>("keccak", &mut bad, &mut cases, |h| h.0[24] ^= 0x80);
    finish("c12_merkle_keccak", cases, bad);
}

// C18 / C17: proof decoders never panic or over-allocate on corrupted bytes; encodings round-trip
// C03, compressed form: "removing, truncating or duplicating any component makes verification fail" - surplus components of the compressed proof
// (a trailing sibling that decompression never reads, a surplus per-layer map, a map entry under a position that is not queried, openings that the
// circuit does not have)
#[test]
fn c03_compressed_surplus() {
    let mut bad = Vec::new();
    let mut cases = 0usize;
    for (tag, cfg, n) in [("small", cfg_small(), 20usize), ("standard", CircuitConfig::standard_recursion_config(), 100)] {
        let (data, proof) = circuit::<PC>(cfg, n, 31 + seed(), false);
        let comp = match data.compress(proof) { Ok(c) => c, Err(_) => { bad.push(format!("{tag}: compress failed")); continue; } };
        cases += 1;
        if data.verify_compressed(comp.clone()).is_err() { bad.push(format!("{tag}: honest compressed proof rejected")); continue; }
        let co = |q: crate::plonk::proof::CompressedProofWithPublicInputs<F, PC, D>| match catch_unwind(AssertUnwindSafe(|| data.verify_compressed(q))) { Ok(Err(_)) => "rejected", Ok(Ok(())) => "ACCEPTED", Err(_) => "PANICKED" };
        let keys: Vec<usize> = { let mut k: Vec<usize> = comp.proof.opening_proof.query_round_proofs.initial_trees_proofs.keys().copied().collect(); k.sort(); k };
        let k0 = keys[0];
        let mut muts: Vec<(&str, Box<dyn Fn(&mut crate::plonk::proof::CompressedProofWithPublicInputs<F, PC, D>)>)> = Vec::new();
        muts.push(("last sibling of a compressed initial Merkle path duplicated", Box::new(move |q| { let s = &mut q.proof.opening_proof.query_round_proofs.initial_trees_proofs.get_mut(&k0).unwrap().evals_proofs[1].1.siblings; if let Some(&l) = s.last() { s.push(l); } else { s.push(Default::default()); } })));
        muts.push(("last per-layer step map duplicated", Box::new(|q| { let st = &mut q.proof.opening_proof.query_round_proofs.steps; if let Some(l) = st.last().cloned() { st.push(l); } })));
        muts.push(("initial-tree entry added under a position that is not queried", Box::new(move |q| { let m = &mut q.proof.opening_proof.query_round_proofs.initial_trees_proofs; let v = m[&k0].clone(); let mut u = 0usize; while m.contains_key(&u) { u += 1; } m.insert(u, v); })));
        muts.push(("step entry added under a coset that is not visited", Box::new(|q| { if let Some(m) = q.proof.opening_proof.query_round_proofs.steps.first_mut() { if let Some(v) = m.values().next().cloned() { let mut u = 0usize; while m.contains_key(&u) { u += 1; } m.insert(u, v); } } })));
        muts.push(("surplus opening in lookup_zs_next of a circuit without lookups", Box::new(|q| q.proof.openings.lookup_zs_next.push(FE::ONE))));
        muts.push(("surplus opening in lookup_zs of a circuit without lookups", Box::new(|q| q.proof.openings.lookup_zs.push(FE::ONE))));
        for (what, m) in &muts {
            let mut q = comp.clone(); m(&mut q);
            if q == comp { continue; }
            cases += 1;
            let o = co(q);
            if o == "ACCEPTED" { bad.push(format!("{tag}: compressed proof with {what} -> ACCEPTED")); }
        }
        // every sibling digest that the compressed form carries is read and bound: altering any of them is not accepted
        let mut not_bound = 0usize; let mut total = 0usize;
        for &k in &keys {
            let n_or = comp.proof.opening_proof.query_round_proofs.initial_trees_proofs[&k].evals_proofs.len();
            for o in 0..n_or { let ns = comp.proof.opening_proof.query_round_proofs.initial_trees_proofs[&k].evals_proofs[o].1.siblings.len();
                for sidx in 0..ns { let mut q = comp.clone(); bump_hash(&mut q.proof.opening_proof.query_round_proofs.initial_trees_proofs.get_mut(&k).unwrap().evals_proofs[o].1.siblings[sidx], 1); total += 1; if co(q) == "ACCEPTED" { not_bound += 1; } } }
        }
        for (li, layer) in comp.proof.opening_proof.query_round_proofs.steps.iter().enumerate() { for (&ck, st) in layer.iter() { for sidx in 0..st.merkle_proof.siblings.len() {
            let mut q = comp.clone(); bump_hash(&mut q.proof.opening_proof.query_round_proofs.steps[li].get_mut(&ck).unwrap().merkle_proof.siblings[sidx], 1); total += 1; if co(q) == "ACCEPTED" { not_bound += 1; } } } }
        cases += 1;
        if not_bound > 0 { bad.push(format!("{tag}: {not_bound} of the {total} sibling digests carried by the compressed proof can be altered without the proof being refused")); }
    }
    finish("c03_compressed_surplus", cases, bad);
}

#[test]
fn c18_c17_decoders() {
    log::set_max_level(log::LevelFilter::Trace);   // log statements are part of the code under test: their arguments are evaluated at this level
    let mut bad = Vec::new();
    let mut cases = 0usize;
    let (data, proof) = circuit::<PC>(cfg_fixed(), 6, 19 + seed(), true);
    let bytes = proof.to_bytes();
    cases += 1;
    match ProofWithPublicInputs::<F, PC, D>::from_bytes(bytes.clone(), &data.common) { Ok(p2) => if p2 != proof { bad.push("from_bytes(to_bytes(p)) != p".into()) }, Err(e) => bad.push(format!("from_bytes(to_bytes(p)) failed: {e}")) }
    let comp = data.compress(proof.clone()).unwrap();
    let cbytes = comp.to_bytes();
    cases += 1;
    match crate::plonk::proof::CompressedProofWithPublicInputs::<F, PC, D>::from_bytes(cbytes.clone(), &data.common) { Ok(c2) => if c2 != comp { bad.push("compressed from_bytes(to_bytes(p)) != p".into()) }, Err(e) => bad.push(format!("compressed from_bytes failed: {e}")) }
    let try_decode = |b: Vec<u8>| -> &'static str {
        match catch_unwind(AssertUnwindSafe(|| ProofWithPublicInputs::<F, PC, D>::from_bytes(b, &data.common).map(|p| { let _ = catch_unwind(AssertUnwindSafe(|| data.verify(p))); }))) { Ok(_) => "ok", Err(_) => "PANICKED" }
    };
    // truncations
    let step = (bytes.len() / 97).max(1);
    let mut l = 0;
    while l < bytes.len() { cases += 1; if try_decode(bytes[..l].to_vec()) == "PANICKED" { bad.push(format!("decoder panicked on truncation to {l} bytes")); } l += step; }
    // the 8-byte length field of the public inputs (last 8 + 8*n bytes) and other u64 fields set to huge values
    let npi = proof.public_inputs.len();
    let off = bytes.len() - 8 * npi - 8;
    for huge in [u64::MAX, u64::MAX / 2, 1u64 << 61, 1u64 << 40, (npi as u64) + 1] {
        let mut b = bytes.clone(); b[off..off + 8].copy_from_slice(&huge.to_le_bytes()); cases += 1;
        if try_decode(b) == "PANICKED" { bad.push(format!("decoder panicked (or tried to allocate) with public-input length field = {huge}")); }
    }
    // bit flips and 0xff runs (non-canonical field encodings)
    let mut s = 0x9E37_79B9_7F4A_7C15u64 ^ seed();
    for _ in 0..400 { s ^= s << 13; s ^= s >> 7; s ^= s << 17; let pos = (s as usize) % bytes.len(); let mut b = bytes.clone(); b[pos] ^= 1 << (s >> 61); cases += 1;
        if try_decode(b) == "PANICKED" { bad.push(format!("decoder/verifier panicked on bit flip at byte {pos}")); } }
    for pos in (0..bytes.len().saturating_sub(8)).step_by((bytes.len() / 61).max(1)) { let mut b = bytes.clone(); for k in 0..8 { b[pos + k] = 0xff; } cases += 1;
        if try_decode(b) == "PANICKED" { bad.push(format!("decoder/verifier panicked on 0xff run at byte {pos}")); } }
    finish("c18_c17_decoders", cases, bad);
}

// C18: the compressed verification entry point must return an error (not panic) on tampered / malformed compressed proofs
#[test]
fn c18_compressed_malformed() {
    log::set_max_level(log::LevelFilter::Trace);   // log statements are part of the code under test: their arguments are evaluated at this level
    let mut bad = Vec::new();
    let mut cases = 0usize;
    let (data, proof) = circuit::<PC>(cfg_fixed(), 6, 23 + seed(), true);
    let comp = data.compress(proof).expect("harness: compress failed");
    let co = |q: crate::plonk::proof::CompressedProofWithPublicInputs<F, PC, D>| match catch_unwind(AssertUnwindSafe(|| data.verify_compressed(q))) { Ok(Err(_)) => "rejected", Ok(Ok(())) => "ACCEPTED", Err(_) => "PANICKED" };
    for v in 0..8 {
        let mut q = comp.clone();
        let what = match v {
            0 => { q.public_inputs[0] += F::ONE; "public input changed" }
            1 => { bump_hash(&mut q.proof.wires_cap.0[0], 1); "wires cap changed" }
            2 => { q.proof.openings.wires[0] += FE::ONE; "opening changed" }
            3 => { q.proof.opening_proof.pow_witness += F::ONE; "pow witness changed" }
            4 => { q.proof.opening_proof.final_poly.coeffs.pop(); "final polynomial truncated" }
            5 => { q.proof.openings.quotient_polys.pop(); "openings truncated" }   // (the redundant `indices` list is recomputed and never read: not a case)
            6 => { q.proof.opening_proof.query_round_proofs.steps.pop(); "steps truncated" }
            _ => { q.proof.opening_proof.query_round_proofs.initial_trees_proofs.clear(); "initial proofs removed" }
        };
        cases += 1;
        let o = co(q);
        if o != "rejected" { bad.push(format!("verify_compressed {o} on a compressed proof with {what}")); }
    }
    // a wrong NUMBER of public inputs is refused before anything is derived from them
    for (what, f) in [("a surplus public input", 0u8), ("a missing public input", 1), ("no public inputs", 2)] {
        let mut q = comp.clone();
        match f { 0 => q.public_inputs.push(F::from_canonical_u64(99)), 1 => { q.public_inputs.pop(); } _ => q.public_inputs.clear() }
        cases += 1;
        let o = co(q);
        if o != "rejected" { bad.push(format!("public-input count: verify_compressed {o} on a compressed proof with {what}")); }
    }
    finish("c18_compressed_malformed", cases, bad);
}

fn circuit_rows(config: CircuitConfig, min_rows: usize, x0: u64, with_lut: bool, with_random_access: bool) -> (CircuitData<F, PC, D>, ProofWithPublicInputs<F, PC, D>) {
    use crate::gates::noop::NoopGate;
    let mut builder = CircuitBuilder::<F, D>::new(config);
    let x = builder.add_virtual_target();
    let mut cur = x;
    for _ in 0..10 { cur = builder.mul(cur, x); cur = builder.add(cur, x); }
    builder.register_public_input(x);
    builder.register_public_input(cur);
    if with_random_access {
        let c5 = builder.constant(F::from_canonical_u64(5));
        let c9 = builder.constant(F::from_canonical_u64(9));
        let two = builder.two();
        let v = vec![c5, c9, cur, x];
        let sel = builder.random_access(two, v);
        builder.register_public_input(sel);
    }
    if with_lut {
        let table: Vec<(u16, u16)> = (0..256u16).map(|i| (i, i.wrapping_mul(7) ^ 0x55)).collect();
        let idx = builder.add_lookup_table_from_pairs(std::sync::Arc::new(table));
        let k = builder.constant(F::from_canonical_u64(77));
        let out = builder.add_lookup_from_index(k, idx);
        builder.register_public_input(out);
    }
    while builder.num_gates() < min_rows { builder.add_gate(NoopGate, vec![]); }
    let mut pw = PartialWitness::new();
    pw.set_target(x, F::from_canonical_u64(x0)).unwrap();
    let data = builder.build::<PC>();
    let proof = data.prove(pw).expect("harness: honest proving failed");
    data.verify(proof.clone()).expect("harness: honest proof rejected");
    (data, proof)
}

// C16: compression is lossless and verification-equivalent for many arity schedules, cap heights and dense / repeated queries
#[test]
fn c16_compression() {
    let mut bad = Vec::new();
    let mut cases = 0usize;
    let schedules: Vec<(FriReductionStrategy, usize, usize, usize, usize)> = vec![
        // (strategy, cap_height, num_query_rounds, min_rows, rate_bits)
        (FriReductionStrategy::Fixed(vec![3, 2]), 4, 400, 1 << 3, 3),
        (FriReductionStrategy::Fixed(vec![2, 2]), 1, 20, 1 << 4, 3),
        (FriReductionStrategy::Fixed(vec![3, 1, 2]), 2, 30, 1 << 5, 3),
        (FriReductionStrategy::Fixed(vec![1, 2, 1, 1]), 0, 40, 1 << 5, 3),
        (FriReductionStrategy::ConstantArityBits(1, 1), 2, 14, 1 << 3, 3),
        (FriReductionStrategy::ConstantArityBits(4, 5), 4, 28, 1 << 9, 3),
        (FriReductionStrategy::ConstantArityBits(3, 2), 3, 60, 1 << 6, 3),
        (FriReductionStrategy::ConstantArityBits(2, 3), 5, 500, 1 << 4, 3),
        // other blowups (the evaluation domain is 2^(degree_bits + rate_bits), whatever the quotient degree factor is)
        (FriReductionStrategy::Fixed(vec![2, 2]), 1, 20, 1 << 4, 4),
        (FriReductionStrategy::ConstantArityBits(3, 2), 3, 30, 1 << 6, 5),
        (FriReductionStrategy::ConstantArityBits(4, 5), 4, 28, 1 << 9, 4),
        (FriReductionStrategy::Fixed(vec![1, 1]), 2, 16, 1 << 4, 2),
        (FriReductionStrategy::Fixed(vec![1, 3]), 0, 24, 1 << 5, 6),
        // no reduction layer at all; a commit-phase tree exactly as tall as the cap
        (FriReductionStrategy::ConstantArityBits(4, 5), 2, 10, 1 << 3, 3),
        (FriReductionStrategy::Fixed(vec![]), 1, 12, 1 << 3, 3),
        (FriReductionStrategy::Fixed(vec![3, 3]), 4, 20, 1 << 7, 3),
        (FriReductionStrategy::Fixed(vec![2]), 4, 20, 1 << 3, 3),
    ];
    for (k, (strategy, cap_height, nq, rows, rate_bits)) in schedules.into_iter().enumerate() {
        let mut cfg = CircuitConfig::standard_recursion_config();
        cfg.fri_config.rate_bits = rate_bits;
        cfg.security_bits = 3;
        cfg.fri_config.proof_of_work_bits = 1;
        cfg.fri_config.cap_height = cap_height;
        cfg.fri_config.num_query_rounds = nq;
        cfg.fri_config.reduction_strategy = strategy.clone();
        let built = catch_unwind(AssertUnwindSafe(|| circuit_rows(cfg, rows, 3 + k as u64 + seed(), k % 2 == 1, false)));
        let (data, proof) = match built { Ok(x) => x, Err(_) => { continue; } };   // inadmissible combination for this size: not a case
        cases += 3;
        let comp = match catch_unwind(AssertUnwindSafe(|| data.compress(proof.clone()))) { Ok(Ok(c)) => c, _ => { bad.push(format!("schedule {k} {strategy:?} cap {cap_height} q {nq}: compress failed")); continue; } };
        match catch_unwind(AssertUnwindSafe(|| data.decompress(comp.clone()))) {
            Ok(Ok(p2)) => if p2 != proof { bad.push(format!("schedule {k} {strategy:?} cap {cap_height} q {nq} rate_bits {rate_bits}: decompress(compress(p)) != p")) },
            Ok(Err(e)) => bad.push(format!("schedule {k} {strategy:?}: decompress error {e}")),
            Err(_) => bad.push(format!("schedule {k} {strategy:?} cap {cap_height} q {nq}: decompress PANICKED")),
        }
        match catch_unwind(AssertUnwindSafe(|| data.verify_compressed(comp.clone()))) {
            Ok(Ok(())) => {}, Ok(Err(e)) => bad.push(format!("schedule {k} {strategy:?} cap {cap_height} q {nq}: verify_compressed rejects a proof that verify accepts: {e}")),
            Err(_) => bad.push(format!("schedule {k} {strategy:?} cap {cap_height} q {nq}: verify_compressed PANICKED on an honest proof")),
        }
        // the compressed form is about exactly these public inputs: a surplus one is refused even if it is zero (which leaves the hash of the inputs unchanged)
        { let mut q = comp.clone(); q.public_inputs.push(F::ZERO); cases += 1;
          if let Ok(Ok(())) = catch_unwind(AssertUnwindSafe(|| data.verify_compressed(q))) { bad.push(format!("schedule {k}: compressed proof with a zero appended to the public inputs accepted by verify_compressed")); } }
        // byte round trip of the compressed form
        cases += 1;
        match crate::plonk::proof::CompressedProofWithPublicInputs::<F, PC, D>::from_bytes(comp.to_bytes(), &data.common) { Ok(c2) => if c2 != comp { bad.push(format!("schedule {k}: compressed bytes round trip changed the proof")) }, Err(e) => bad.push(format!("schedule {k}: compressed from_bytes failed: {e}")) }
    }
    // Merkle-path compression alone: all index multisets of a small tree
    {
        use crate::hash::path_compression::{compress_merkle_proofs, decompress_merkle_proofs};
        // leaf styles: pairwise distinct; periodic with period 4 and with period 2 (equal sub-trees at different positions, as a periodic or padded column
        // gives: distinct nodes then carry EQUAL digests); constant
        for style in 0..4usize { for h in 1..=4usize { for cap_height in 0..=h {
            let n = 1usize << h;
            let leaves: Vec<Vec<F>> = (0..n).map(|i| vec![F::from_canonical_u64(match style { 0 => i, 1 => i % 4, 2 => i % 2, _ => 0 } as u64 + 1); 5]).collect();
            let tree = MerkleTree::<F, PoseidonHash>::new(leaves.clone(), cap_height);
            let mut s = 0xDEAD_BEEF_0BAD_F00Du64 ^ seed() ^ ((h * 16 + cap_height) as u64);
            let mut sets: Vec<Vec<usize>> = vec![(0..n).collect(), (0..n).rev().collect(), vec![0], vec![n - 1, n - 1, 0], (0..n).flat_map(|i| [i, i]).collect()];
            if h == 3 { sets.push(vec![4, 5, 1, 0, 5]); }
            if h == 4 { sets.push(vec![0, 4]); sets.push(vec![0, 8]); sets.push(vec![1, 5, 9]); sets.push(vec![2, 6, 10, 14]); }
            for _ in 0..12 { s ^= s << 13; s ^= s >> 7; s ^= s << 17; let len = 1 + (s as usize) % (2 * n); let mut v = Vec::new(); let mut t = s; for _ in 0..len { t ^= t << 13; t ^= t >> 7; t ^= t << 17; v.push((t as usize) % n); } sets.push(v); }
            for idx in sets {
                let proofs: Vec<_> = idx.iter().map(|&i| tree.prove(i)).collect();
                cases += 1;
                let r = catch_unwind(AssertUnwindSafe(|| { let c = compress_merkle_proofs(cap_height, &idx, &proofs); let lv: Vec<Vec<F>> = idx.iter().map(|&i| leaves[i].clone()).collect(); decompress_merkle_proofs::<F, PoseidonHash>(&lv, &idx, &c, h, cap_height) }));
                match r { Ok(d) => if d != proofs { bad.push(format!("merkle path compression not lossless: leaf style {style} h={h} cap={cap_height} indices={idx:?}")) }, Err(_) => bad.push(format!("merkle path (de)compression PANICKED: leaf style {style} h={h} cap={cap_height} indices={idx:?}")) }
            }
        } } }
    }
    finish("c16_compression", cases, bad);
}

// C17: binary encodings round-trip and restored circuits are interchangeable (lookups, random access, constants included)
#[test]
fn c17_circuit_roundtrip() {
    use crate::util::serialization::{DefaultGateSerializer, DefaultGeneratorSerializer};
    let mut bad = Vec::new();
    let mut cases = 0usize;
    for (tag, lut, ra, rows) in [("plain", false, false, 1usize << 3), ("lookup-256", true, false, 1 << 4), ("random-access", false, true, 1 << 3), ("lookup+random-access", true, true, 1 << 5)] {
        let mut cfg = CircuitConfig::standard_recursion_config();
        cfg.fri_config.num_query_rounds = 10; cfg.security_bits = 30;
        let (data, proof) = circuit_rows(cfg, rows, 21 + seed(), lut, ra);
        let gs = DefaultGateSerializer;
        let ws = DefaultGeneratorSerializer::<PC, D> { _phantom: Default::default() };
        cases += 1;
        let bytes = match data.to_bytes(&gs, &ws) { Ok(b) => b, Err(_) => { bad.push(format!("{tag}: CircuitData::to_bytes failed")); continue; } };
        let restored = match catch_unwind(AssertUnwindSafe(|| CircuitData::<F, PC, D>::from_bytes(&bytes, &gs, &ws))) { Ok(Ok(d)) => d, Ok(Err(_)) => { bad.push(format!("{tag}: CircuitData::from_bytes failed")); continue; }, Err(_) => { bad.push(format!("{tag}: CircuitData::from_bytes PANICKED")); continue; } };
        cases += 6;
        if restored.common != data.common { bad.push(format!("{tag}: restored common data differ")); }
        if restored.verifier_only != data.verifier_only { bad.push(format!("{tag}: restored verifier data differ")); }
        if restored != data { bad.push(format!("{tag}: restored circuit data differ from the original")); }
        // each accepts the other's proofs
        if restored.verify(proof.clone()).is_err() { bad.push(format!("{tag}: restored circuit rejects the original circuit's proof")); }
        let mut pw = PartialWitness::new();
        pw.set_target(crate::iop::target::Target::VirtualTarget { index: 0 }, F::from_canonical_u64(21 + seed())).unwrap();
        match catch_unwind(AssertUnwindSafe(|| restored.prove(pw))) {
            Ok(Ok(p2)) => { if data.verify(p2.clone()).is_err() { bad.push(format!("{tag}: original circuit rejects the restored circuit's proof")); } if p2.public_inputs != proof.public_inputs { bad.push(format!("{tag}: restored circuit computes different public inputs")); } }
            Ok(Err(e)) => bad.push(format!("{tag}: restored circuit fails to prove: {e}")),
            Err(_) => bad.push(format!("{tag}: restored circuit PANICKED while proving")),
        }
        // proof / verifier data / common data byte round trips
        match ProofWithPublicInputs::<F, PC, D>::from_bytes(proof.to_bytes(), &data.common) { Ok(p2) => if p2 != proof { bad.push(format!("{tag}: proof bytes round trip differs")) }, Err(_) => bad.push(format!("{tag}: proof from_bytes failed")) }
        cases += 2;
        match data.common.to_bytes(&gs).ok().and_then(|b| crate::plonk::circuit_data::CommonCircuitData::<F, D>::from_bytes(b, &gs).ok()) { Some(c2) => if c2 != data.common { bad.push(format!("{tag}: common data bytes round trip differs")) }, None => bad.push(format!("{tag}: common data byte round trip failed")) }
        match data.verifier_only.to_bytes().ok().and_then(|b| crate::plonk::circuit_data::VerifierOnlyCircuitData::<PC, D>::from_bytes(b).ok()) { Some(v2) => if v2 != data.verifier_only { bad.push(format!("{tag}: verifier-only bytes round trip differs")) }, None => bad.push(format!("{tag}: verifier-only byte round trip failed")) }
    }
    // the compressed-proof codec on proofs in which FRI query positions COINCIDE (the compressed form stores one opening per distinct position): small
    // LDE domains; at least one tested proof must have a repeated query index, which is checked, not hoped for
    {
        let mut with_repeat = 0usize;
        for (k, n) in [(0u64, 3usize), (1, 5), (2, 12), (3, 3), (4, 20)] {
            let mut cfg = cfg_small(); cfg.fri_config.num_query_rounds = 28;
            let (data, proof) = circuit::<PC>(cfg, n, 31 + k + seed(), false);
            let idx = proof.get_challenges(proof.get_public_inputs_hash(), &data.verifier_only.circuit_digest, &data.common).map(|c| c.fri_challenges.fri_query_indices).unwrap_or_default();
            let mut d = idx.clone(); d.sort(); d.dedup();
            if d.len() < idx.len() { with_repeat += 1; }
            cases += 1;
            match catch_unwind(AssertUnwindSafe(|| data.compress(proof.clone()))) {
                Ok(Ok(comp)) => match catch_unwind(AssertUnwindSafe(|| crate::plonk::proof::CompressedProofWithPublicInputs::<F, PC, D>::from_bytes(comp.to_bytes(), &data.common))) {
                    Ok(Ok(c2)) => { if c2 != comp { bad.push(format!("compressed proof ({} of {} query positions distinct): byte round trip differs", d.len(), idx.len())); }
                                    else if data.verify_compressed(c2).is_err() { bad.push(format!("compressed proof ({} of {} query positions distinct): decoded proof rejected", d.len(), idx.len())); } }
                    Ok(Err(e)) => bad.push(format!("compressed proof ({} of {} query positions distinct): from_bytes failed: {e}", d.len(), idx.len())),
                    Err(_) => bad.push(format!("compressed proof ({} of {} query positions distinct): from_bytes PANICKED", d.len(), idx.len())),
                },
                _ => bad.push("compress failed on an honest proof".into()),
            }
        }
        if with_repeat == 0 { bad.push("harness: no tested proof has coinciding FRI query positions".into()); }
    }
    finish("c17_circuit_roundtrip", cases, bad);
}

// C17: encodings of a configuration with 25-byte digests (Keccak), and of a circuit that carries a dummy-proof generator over an inner circuit whose
// common data differ from the outer circuit's
#[test]
fn c17_keccak_and_dummy_roundtrip() {
    use crate::util::serialization::{DefaultGateSerializer, DefaultGeneratorSerializer};
    let mut bad = Vec::new();
    let mut cases = 0usize;
    {
        let mut cfg = CircuitConfig::standard_recursion_config();
        cfg.fri_config.num_query_rounds = 8; cfg.security_bits = 24;
        let (data, proof) = circuit::<KC>(cfg, 12, 9 + seed(), false);
        cases += 5;
        match ProofWithPublicInputs::<F, KC, D>::from_bytes(proof.to_bytes(), &data.common) { Ok(p2) => if p2 != proof { bad.push("keccak: proof bytes round trip differs".into()) } else if data.verify(p2).is_err() { bad.push("keccak: decoded proof rejected".into()) }, Err(_) => bad.push("keccak: proof from_bytes failed".into()) }
        match data.compress(proof.clone()) { Ok(comp) => match crate::plonk::proof::CompressedProofWithPublicInputs::<F, KC, D>::from_bytes(comp.to_bytes(), &data.common) { Ok(c2) => if c2 != comp { bad.push("keccak: compressed proof bytes round trip differs".into()) }, Err(_) => bad.push("keccak: compressed proof from_bytes failed".into()) }, Err(_) => bad.push("keccak: compress failed".into()) }
        match data.verifier_only.to_bytes().ok().and_then(|b| crate::plonk::circuit_data::VerifierOnlyCircuitData::<KC, D>::from_bytes(b).ok()) { Some(v2) => if v2 != data.verifier_only { bad.push("keccak: verifier-only bytes round trip differs".into()) }, None => bad.push("keccak: decoding the verifier-only data failed".into()) }
        let gs = DefaultGateSerializer;
        let vdata = data.verifier_data();
        match vdata.to_bytes(&gs).ok().and_then(|b| crate::plonk::circuit_data::VerifierCircuitData::<F, KC, D>::from_bytes(b, &gs).ok()) { Some(v2) => if v2.verifier_only != vdata.verifier_only || v2.common != vdata.common { bad.push("keccak: verifier circuit data bytes round trip differs".into()) } else if v2.verify(proof.clone()).is_err() { bad.push("keccak: restored verifier data reject the proof".into()) }, None => bad.push("keccak: decoding the verifier circuit data failed".into()) }
    }
    {
        let (inner, p_ok) = c20_inner(false, 5);
        let mut builder = CircuitBuilder::<F, D>::new(CircuitConfig::standard_recursion_config());
        let pt = builder.add_virtual_proof_with_pis(&inner.common);
        let vd = builder.add_virtual_verifier_data(inner.common.config.fri_config.cap_height);
        let b = builder.add_virtual_bool_target_safe();
        let extra = builder.add_virtual_public_input();
        cases += 1;
        match catch_unwind(AssertUnwindSafe(move || { builder.conditionally_verify_proof_or_dummy::<PC>(b, &pt, &vd, &inner.common).map(|_| (builder.build::<PC>(), pt, vd, inner)) })) {
            Ok(Ok((outer, pt, vd, inner))) => {
                let gs = DefaultGateSerializer;
                let ws = DefaultGeneratorSerializer::<PC, D> { _phantom: Default::default() };
                match outer.to_bytes(&gs, &ws) {
                    Err(_) => bad.push("circuit with a dummy-proof generator: to_bytes failed".into()),
                    Ok(bytes) => match catch_unwind(AssertUnwindSafe(|| CircuitData::<F, PC, D>::from_bytes(&bytes, &gs, &ws))) {
                        Ok(Ok(restored)) => {
                            cases += 3;
                            if restored != outer { bad.push("circuit with a dummy-proof generator: restored circuit data differ".into()); }
                            for cond in [true, false] {
                                let r = catch_unwind(AssertUnwindSafe(|| -> anyhow::Result<()> {
                                    let mut pw = PartialWitness::new();
                                    pw.set_bool_target(b, cond)?; pw.set_proof_with_pis_target(&pt, &p_ok)?; pw.set_verifier_data_target(&vd, &inner.verifier_only)?; pw.set_target(extra, F::from_canonical_u64(42))?;
                                    let p = restored.prove(pw)?;
                                    outer.verify(p)
                                }));
                                if !matches!(r, Ok(Ok(()))) { bad.push(format!("circuit with a dummy-proof generator: restored circuit does not prove interchangeably (condition {cond})")); }
                            }
                        }
                        Ok(Err(_)) => bad.push("circuit with a dummy-proof generator (inner common data differ from the outer ones): CircuitData::from_bytes failed".into()),
                        Err(_) => bad.push("circuit with a dummy-proof generator: CircuitData::from_bytes PANICKED".into()),
                    },
                }
            }
            _ => bad.push("building a circuit with conditionally_verify_proof_or_dummy failed".into()),
        }
    }
    {
        // a zero-knowledge configuration: blinding flags differ per commitment and must survive the round trip
        use crate::util::serialization::{DefaultGateSerializer, DefaultGeneratorSerializer};
        let mut cfg = CircuitConfig::standard_recursion_zk_config();
        cfg.fri_config.num_query_rounds = 8; cfg.security_bits = 24;
        cases += 1;
        match catch_unwind(AssertUnwindSafe(|| circuit::<PC>(cfg, 12, 5 + seed(), false))) {
            Err(_) => bad.push("zero-knowledge configuration: building / proving PANICKED".into()),
            Ok((data, proof)) => {
                let gs = DefaultGateSerializer;
                let ws = DefaultGeneratorSerializer::<PC, D> { _phantom: Default::default() };
                match data.to_bytes(&gs, &ws).ok().and_then(|bts| catch_unwind(AssertUnwindSafe(|| CircuitData::<F, PC, D>::from_bytes(&bts, &gs, &ws))).ok()) {
                    Some(Ok(restored)) => {
                        cases += 2;
                        if restored != data { bad.push("zero-knowledge configuration: restored circuit data differ".into()); }
                        if restored.verify(proof.clone()).is_err() { bad.push("zero-knowledge configuration: restored circuit rejects the original proof".into()); }
                        let mut pw = PartialWitness::new(); pw.set_target(crate::iop::target::Target::VirtualTarget { index: 0 }, F::from_canonical_u64(5 + seed())).unwrap();
                        match catch_unwind(AssertUnwindSafe(|| restored.prove(pw))) { Ok(Ok(p2)) => { if data.verify(p2).is_err() { bad.push("zero-knowledge configuration: original circuit rejects the restored circuit's proof".into()); } } _ => bad.push("zero-knowledge configuration: restored circuit fails to prove / PANICS".into()) }
                    }
                    _ => bad.push("zero-knowledge configuration: circuit data byte round trip failed".into()),
                }
            }
        }
    }
    finish("c17_keccak_and_dummy_roundtrip", cases, bad);
}

// C17 (thorough tier only: a 2^14-row circuit is slow in a debug build): query indices above 2^16 survive the byte round trip
#[test]
fn t17_large_domain() {
    let mut bad = Vec::new();
    let mut cases = 0usize;
    let mut cfg = CircuitConfig::standard_recursion_config();
    cfg.fri_config.num_query_rounds = 6; cfg.security_bits = 18; cfg.fri_config.proof_of_work_bits = 1;
    let (data, proof) = circuit_rows(cfg, 1 << 14, 5, false, false);
    let comp = data.compress(proof).unwrap();
    cases += 1;
    match crate::plonk::proof::CompressedProofWithPublicInputs::<F, PC, D>::from_bytes(comp.to_bytes(), &data.common) { Ok(c2) => if c2 != comp { bad.push("2^17-point domain: compressed proof bytes round trip differs".into()) }, Err(_) => bad.push("2^17-point domain: compressed from_bytes failed".into()) }
    finish("t17_large_domain", cases, bad);
}

// ---- C07: gates ----
fn gate_battery<G: crate::gates::gate::Gate<F, D>>(tag: &str, mk: impl Fn() -> G, config: &CircuitConfig, bad: &mut Vec<String>, cases: &mut usize) {
    use crate::field::types::Sample;
    use crate::iop::generator::generate_partial_witness;
    use crate::iop::wire::Wire;
    use crate::iop::witness::Witness;
    use crate::plonk::vars::{EvaluationTargets, EvaluationVars, EvaluationVarsBaseBatch};
    let gate = mk();
    let (nw, nc, ncons) = (gate.num_wires(), gate.num_constants(), gate.num_constraints());
    let pih = HashOut::<F>::rand();
    // (1) extension evaluator vs base/packed batch evaluator on a batch of 19 rows (random and boundary values; 19 = packed chunks + leftovers for the
    // packing widths 1, 4 and 8 of the scalar, AVX2 and AVX-512 builds), declared count
    let batch = 19usize;
    let lat = [F::ZERO, F::ONE, F::NEG_ONE, F::from_canonical_u64(0xFFFF_FFFF), F::from_canonical_u64(1 << 32)];
    let rows_w: Vec<Vec<F>> = (0..batch).map(|b| (0..nw).map(|k| if b % 9 == 0 { lat[(k + b) % 5] } else { F::rand() }).collect()).collect();
    let rows_c: Vec<Vec<F>> = (0..batch).map(|b| (0..nc).map(|k| if b % 9 == 0 { lat[(k + b + 2) % 5] } else { F::rand() }).collect()).collect();
    let flat_w: Vec<F> = (0..nw).flat_map(|k| (0..batch).map(|b| rows_w[b][k]).collect::<Vec<_>>()).collect();
    let flat_c: Vec<F> = (0..nc).flat_map(|k| (0..batch).map(|b| rows_c[b][k]).collect::<Vec<_>>()).collect();
    *cases += 1;
    let base = catch_unwind(AssertUnwindSafe(|| gate.eval_unfiltered_base_batch(EvaluationVarsBaseBatch::new(batch, &flat_c, &flat_w, &pih))));
    match base {
        Err(_) => bad.push(format!("{tag}: eval_unfiltered_base_batch PANICKED")),
        Ok(base) => {
            if base.len() != batch * ncons { bad.push(format!("{tag}: base evaluator returned {} values for a batch of {batch}, gate declares {ncons} constraints", base.len())); }
            for b in 0..batch {
                let w: Vec<FE> = rows_w[b].iter().map(|&x| x.into()).collect();
                let c: Vec<FE> = rows_c[b].iter().map(|&x| x.into()).collect();
                let ext = gate.eval_unfiltered(EvaluationVars { local_constants: &c, local_wires: &w, public_inputs_hash: &pih });
                *cases += 1;
                if ext.len() != ncons { bad.push(format!("{tag}: eval_unfiltered returned {} constraints, gate declares {ncons}", ext.len())); break; }
                if base.len() == batch * ncons && (0..ncons).any(|j| ext[j] != base[j * batch + b].into()) { bad.push(format!("{tag}: base/packed evaluator disagrees with the extension evaluator on batch row {b}")); break; }
            }
        }
    }
    // (2) in-circuit evaluators (unfiltered and filtered with 1 and 2 selectors) vs native, through witness generation only
    {
        let w = FE::rand_vec(nw);
        for num_selectors in [0usize, 1, 2] {
            let c = FE::rand_vec(num_selectors + nc);
            let native = if num_selectors == 0 { gate.eval_unfiltered(EvaluationVars { local_constants: &c, local_wires: &w, public_inputs_hash: &pih }) }
                else { gate.eval_filtered(EvaluationVars { local_constants: &c, local_wires: &w, public_inputs_hash: &pih }, 1, 0, 0..3, num_selectors, 0) };
            *cases += 1;
            let r = catch_unwind(AssertUnwindSafe(|| -> anyhow::Result<Vec<FE>> {
                let mut pw = PartialWitness::new();
                let mut builder = CircuitBuilder::<F, D>::new(config.clone());
                let wt = builder.add_virtual_extension_targets(nw);
                let ct = builder.add_virtual_extension_targets(c.len());
                pw.set_extension_targets(&wt, &w)?;
                pw.set_extension_targets(&ct, &c)?;
                let ht = builder.add_virtual_hash();
                pw.set_hash_target(ht, pih)?;
                let vt = EvaluationTargets { local_constants: &ct, local_wires: &wt, public_inputs_hash: &ht };
                let out = if num_selectors == 0 { gate.eval_unfiltered_circuit(&mut builder, vt) } else {
                    let mut combined = vec![builder.zero_extension(); ncons];
                    gate.eval_filtered_circuit(&mut builder, vt, 1, 0, 0..3, num_selectors, 0, &mut combined);
                    combined
                };
                let data = builder.build_prover::<PC>();
                let wit = generate_partial_witness(pw, &data.prover_only, &data.common)?;
                Ok(out.iter().map(|&t| wit.get_extension_target(t)).collect())
            }));
            match r {
                Ok(Ok(v)) => { if v.len() != native.len() { bad.push(format!("{tag}: in-circuit evaluator ({num_selectors} selectors) returns {} constraints, native {}", v.len(), native.len())); }
                               else if let Some(j) = (0..v.len()).find(|&j| v[j] != native[j]) { bad.push(format!("{tag}: in-circuit evaluator ({num_selectors} selectors) disagrees with the native one at constraint {j}")); } }
                Ok(Err(e)) => bad.push(format!("{tag}: in-circuit evaluation ({num_selectors} selectors) failed: {e}")),
                Err(_) => bad.push(format!("{tag}: in-circuit evaluation ({num_selectors} selectors) PANICKED")),
            }
        }
    }
    // (3) generator completeness and pinning: wires a generator writes are found by conflict (preset everything, drop what a generator overwrites)
    // gates whose first wire is a free field element (a base) and whose other inputs are bits: every such row is in the gate's domain
    let free_first_wire = tag.contains("ExponentiationGate");
    for mode in 0..5 {
        let consts: Vec<F> = (0..nc).map(|k| if mode != 1 { F::from_canonical_u64((k as u64 * 5 + 3) % 7) } else { F::rand() }).collect();
        let mut builder = CircuitBuilder::<F, D>::new(config.clone());
        let row = builder.add_gate(mk(), consts.clone());
        let data = match catch_unwind(AssertUnwindSafe(|| builder.build_prover::<PC>())) { Ok(d) => d, Err(_) => { continue; } };
        // mode 0: every wire in {0,1}; mode 1: every wire random; mode 2: wire 0 random, the others in {0,1}; mode 3: as mode 0, but the values are held in
        // their NON-canonical representation (v + p), which ordinary field arithmetic produces and generators must treat as the same element
        // mode 4: wire 0 random, every other wire ONE (all bits set, incl. the most significant ones)
        let vals: Vec<F> = (0..nw).map(|k| if mode == 4 { if k == 0 { F::rand() } else { F::ONE } } else if mode == 0 || (mode == 2 && k != 0) { F::from_canonical_u64(((k * 7 + 1) % 3 % 2) as u64) }
            else if mode == 3 { F::from_noncanonical_u64(0xFFFF_FFFF_0000_0001u64 + ((k * 7 + 1) % 3 % 2) as u64) } else { F::rand() }).collect();
        let mut gen_panicked = false;
        let mut preset: Vec<bool> = vec![true; nw];
        let mut result = None;
        for _ in 0..=nw {
            let mut pw = PartialWitness::new();
            for k in 0..nw { if preset[k] { pw.set_wire(Wire { row, column: k }, vals[k]).unwrap(); } }
            match catch_unwind(AssertUnwindSafe(|| generate_partial_witness(pw, &data.prover_only, &data.common))) {
                Ok(Ok(wit)) => { result = Some((0..nw).map(|k| wit.try_get_wire(Wire { row, column: k })).collect::<Vec<_>>()); break; }
                Ok(Err(e)) => {
                    let msg = format!("{e}");
                    // "Partition containing Wire { row: R, column: C } was set twice with different values"
                    let col = msg.split("column: ").nth(1).and_then(|t| t.split(|ch: char| !ch.is_ascii_digit()).next()).and_then(|t| t.parse::<usize>().ok());
                    match col { Some(cidx) if cidx < nw && preset[cidx] => { preset[cidx] = false; } _ => { break; } }
                }
                Err(_) => { gen_panicked = true; break; }
            }
        }
        if gen_panicked && (mode == 0 || mode == 3) { *cases += 1; bad.push(format!("{tag}: witness generation PANICKED on inputs in {{0,1}}{}", if mode == 3 { " held in non-canonical representation" } else { "" })); }
        let Some(row_vals) = result else { continue; };
        if row_vals.iter().any(|v| v.is_none()) { continue; }
        let mut rowv: Vec<F> = row_vals.into_iter().map(|v| v.unwrap()).collect();
        let generated: Vec<usize> = (0..nw).filter(|&k| !preset[k]).collect();
        if generated.is_empty() { continue; }
        // the builder may reuse free constant slots of the row, so read the row's constants back from the built circuit
        let nsel = data.common.selectors_info.num_selectors();
        let x_row = data.prover_only.subgroup[row];
        let cext: Vec<FE> = (0..nc).map(|k| data.prover_only.constants_sigmas_commitment.polynomials[nsel + k].eval(x_row).into()).collect();
        // unused constant slots of the row have no generator: a prover fills the wire with the slot's constant
        for (ci, wi) in gate.extra_constant_wires() { if preset[wi] { rowv[wi] = data.prover_only.constants_sigmas_commitment.polynomials[nsel + ci].eval(x_row); } }
        let eval = |r: &[F]| { let w: Vec<FE> = r.iter().map(|&x| x.into()).collect(); gate.eval_unfiltered(EvaluationVars { local_constants: &cext, local_wires: &w, public_inputs_hash: &pih }) };
        *cases += 1;
        let honest = eval(&rowv);
        if honest.iter().any(|c| !c.is_zero()) {
            // inputs outside the gate's domain (e.g. non-bits, too large a sum): only mode 0 (small 0/1 inputs) must be satisfiable
            if free_first_wire && (mode == 2 || mode == 4) { bad.push(format!("{tag}: row filled by the gate's own generators (random base, {}) violates constraint {}", if mode == 4 { "all bits set" } else { "bits in {0,1}" }, honest.iter().position(|c| !c.is_zero()).unwrap())); }
            if mode == 0 || mode == 3 { bad.push(format!("{tag}: row filled by the gate's own generators (inputs in {{0,1}}{}) violates constraint {}", if mode == 3 { ", non-canonical representation" } else { "" }, honest.iter().position(|c| !c.is_zero()).unwrap())); }
            continue;
        }
        for &k in &generated { for delta in [F::ONE, F::NEG_ONE, F::from_canonical_u64(12345)] {
            let mut t = rowv.clone(); t[k] += delta; *cases += 1;
            if eval(&t).iter().all(|c| c.is_zero()) { bad.push(format!("{tag}: generator-written wire {k} can be changed by {} without violating any constraint (mode {mode})", delta.to_canonical_u64())); break; }
        } }
    }
}

// the evaluators of a gate in extension degree DD: as many constraints as declared, and the base/packed batch evaluator agrees with the extension one
fn gate_counts_in_degree<const DD: usize, G: crate::gates::gate::Gate<F, DD>>(tag: &str, gate: G, bad: &mut Vec<String>, cases: &mut usize) where F: Extendable<DD> {
    use crate::field::types::Sample;
    use crate::plonk::vars::{EvaluationVars, EvaluationVarsBaseBatch};
    let (nw, nc, ncons) = (gate.num_wires(), gate.num_constants(), gate.num_constraints());
    let pih = HashOut::<F>::rand();
    let batch = 5usize;
    let rows_w: Vec<Vec<F>> = (0..batch).map(|_| F::rand_vec(nw)).collect();
    let rows_c: Vec<Vec<F>> = (0..batch).map(|_| F::rand_vec(nc)).collect();
    let flat_w: Vec<F> = (0..nw).flat_map(|k| (0..batch).map(|b| rows_w[b][k]).collect::<Vec<_>>()).collect();
    let flat_c: Vec<F> = (0..nc).flat_map(|k| (0..batch).map(|b| rows_c[b][k]).collect::<Vec<_>>()).collect();
    *cases += 1;
    let base = catch_unwind(AssertUnwindSafe(|| gate.eval_unfiltered_base_batch(EvaluationVarsBaseBatch::new(batch, &flat_c, &flat_w, &pih))));
    let exts: Vec<_> = (0..batch).map(|b| {
        let w: Vec<<F as Extendable<DD>>::Extension> = rows_w[b].iter().map(|&x| x.into()).collect();
        let c: Vec<<F as Extendable<DD>>::Extension> = rows_c[b].iter().map(|&x| x.into()).collect();
        catch_unwind(AssertUnwindSafe(|| gate.eval_unfiltered(EvaluationVars { local_constants: &c, local_wires: &w, public_inputs_hash: &pih })))
    }).collect();
    for (b, e) in exts.iter().enumerate() {
        *cases += 1;
        match e {
            Err(_) => { bad.push(format!("{tag}: eval_unfiltered PANICKED")); break; }
            Ok(e) => {
                if e.len() != ncons { bad.push(format!("{tag}: eval_unfiltered returned {} constraints, gate declares {ncons}", e.len())); break; }
                if let Ok(base) = &base { if base.len() == batch * ncons && (0..ncons).any(|j| e[j] != base[j * batch + b].into()) { bad.push(format!("{tag}: base/packed evaluator disagrees with the extension evaluator on batch row {b}")); break; } }
            }
        }
    }
    match base { Err(_) => bad.push(format!("{tag}: eval_unfiltered_base_batch PANICKED (gate declares {ncons} constraints)")), Ok(base) => if base.len() != batch * ncons { bad.push(format!("{tag}: base evaluator returned {} values for a batch of {batch}, gate declares {ncons} constraints", base.len())); } }
}

#[test]
fn c07_gates() {
    use crate::gates::arithmetic_base::ArithmeticGate;
    use crate::gates::arithmetic_extension::ArithmeticExtensionGate;
    use crate::gates::base_sum::BaseSumGate;
    use crate::gates::constant::ConstantGate;
    use crate::gates::coset_interpolation::CosetInterpolationGate;
    use crate::gates::exponentiation::ExponentiationGate;
    use crate::gates::multiplication_extension::MulExtensionGate;
    use crate::gates::poseidon::PoseidonGate;
    use crate::gates::poseidon_mds::PoseidonMdsGate;
    use crate::gates::public_input::PublicInputGate;
    use crate::gates::random_access::RandomAccessGate;
    use crate::gates::reducing::ReducingGate;
    use crate::gates::reducing_extension::ReducingExtensionGate;
    let mut bad = Vec::new();
    let mut cases = 0usize;
    let std_cfg = CircuitConfig::standard_recursion_config();
    let mut narrow = CircuitConfig::standard_recursion_config();
    narrow.num_routed_wires = 37;
    for (ctag, cfg) in [("std", &std_cfg), ("narrow37", &narrow)] {
        gate_battery(&format!("{ctag} ArithmeticGate"), || ArithmeticGate::new_from_config(cfg), cfg, &mut bad, &mut cases);
        gate_battery(&format!("{ctag} ArithmeticGate(1)"), || ArithmeticGate { num_ops: 1 }, cfg, &mut bad, &mut cases);
        gate_battery(&format!("{ctag} ArithmeticExtensionGate"), || ArithmeticExtensionGate::<D>::new_from_config(cfg), cfg, &mut bad, &mut cases);
        gate_battery(&format!("{ctag} MulExtensionGate"), || MulExtensionGate::<D>::new_from_config(cfg), cfg, &mut bad, &mut cases);
        gate_battery(&format!("{ctag} BaseSumGate<2>(5)"), || BaseSumGate::<2>::new(5), cfg, &mut bad, &mut cases);
        gate_battery(&format!("{ctag} BaseSumGate<2>(1)"), || BaseSumGate::<2>::new(1), cfg, &mut bad, &mut cases);
        gate_battery(&format!("{ctag} BaseSumGate<4>(3)"), || BaseSumGate::<4>::new(3), cfg, &mut bad, &mut cases);
        gate_battery(&format!("{ctag} BaseSumGate<3>(4)"), || BaseSumGate::<3>::new(4), cfg, &mut bad, &mut cases);
        gate_battery(&format!("{ctag} BaseSumGate<5>(2)"), || BaseSumGate::<5>::new(2), cfg, &mut bad, &mut cases);
        gate_battery(&format!("{ctag} BaseSumGate<7>(3)"), || BaseSumGate::<7>::new(3), cfg, &mut bad, &mut cases);
        gate_battery(&format!("{ctag} CosetInterpolationGate(3)"), || CosetInterpolationGate::<F, D>::new(3), cfg, &mut bad, &mut cases);
        gate_battery(&format!("{ctag} RandomAccessGate(3)"), || RandomAccessGate::<F, D>::new_from_config(cfg, 3), cfg, &mut bad, &mut cases);
        gate_battery(&format!("{ctag} ConstantGate(2)"), || ConstantGate::new(2), cfg, &mut bad, &mut cases);
        gate_battery(&format!("{ctag} ExponentiationGate(5)"), || ExponentiationGate::<F, D>::new(5), cfg, &mut bad, &mut cases);
        gate_battery(&format!("{ctag} ExponentiationGate(1)"), || ExponentiationGate::<F, D>::new(1), cfg, &mut bad, &mut cases);
        gate_battery(&format!("{ctag} ExponentiationGate(from config)"), || ExponentiationGate::<F, D>::new_from_config(cfg), cfg, &mut bad, &mut cases);
        gate_battery(&format!("{ctag} PoseidonGate"), || PoseidonGate::<F, D>::new(), cfg, &mut bad, &mut cases);
        gate_battery(&format!("{ctag} PoseidonMdsGate"), || PoseidonMdsGate::<F, D>::new(), cfg, &mut bad, &mut cases);
        gate_battery(&format!("{ctag} PublicInputGate"), || PublicInputGate, cfg, &mut bad, &mut cases);
        gate_battery(&format!("{ctag} RandomAccessGate(2)"), || RandomAccessGate::<F, D>::new_from_config(cfg, 2), cfg, &mut bad, &mut cases);
        gate_battery(&format!("{ctag} RandomAccessGate(1)"), || RandomAccessGate::<F, D>::new_from_config(cfg, 1), cfg, &mut bad, &mut cases);
        gate_battery(&format!("{ctag} ReducingGate(5)"), || ReducingGate::<D>::new(5), cfg, &mut bad, &mut cases);
        gate_battery(&format!("{ctag} ReducingExtensionGate(3)"), || ReducingExtensionGate::<D>::new(3), cfg, &mut bad, &mut cases);
        gate_battery(&format!("{ctag} CosetInterpolationGate(2)"), || CosetInterpolationGate::<F, D>::new(2), cfg, &mut bad, &mut cases);
        // degree-bounded parameterisations, which carry intermediate values
        gate_battery(&format!("{ctag} CosetInterpolationGate(3, max degree 3)"), || CosetInterpolationGate::<F, D>::with_max_degree(3, 3), cfg, &mut bad, &mut cases);
        gate_battery(&format!("{ctag} CosetInterpolationGate(4, max degree 6)"), || CosetInterpolationGate::<F, D>::with_max_degree(4, 6), cfg, &mut bad, &mut cases);
    }
    // extension degrees other than 2: declared count == returned count, base/packed evaluator == extension evaluator
    {
        let cfg = &CircuitConfig::standard_recursion_config();
        macro_rules! in_degree { ($dd:literal) => {{
            gate_counts_in_degree::<$dd, _>(&format!("D={} CosetInterpolationGate(3)", $dd), CosetInterpolationGate::<F, $dd>::new(3), &mut bad, &mut cases);
            gate_counts_in_degree::<$dd, _>(&format!("D={} CosetInterpolationGate(3, max degree 3)", $dd), CosetInterpolationGate::<F, $dd>::with_max_degree(3, 3), &mut bad, &mut cases);
            gate_counts_in_degree::<$dd, _>(&format!("D={} CosetInterpolationGate(4, max degree 4)", $dd), CosetInterpolationGate::<F, $dd>::with_max_degree(4, 4), &mut bad, &mut cases);
            gate_counts_in_degree::<$dd, _>(&format!("D={} ArithmeticExtensionGate", $dd), ArithmeticExtensionGate::<$dd>::new_from_config(cfg), &mut bad, &mut cases);
            gate_counts_in_degree::<$dd, _>(&format!("D={} MulExtensionGate", $dd), MulExtensionGate::<$dd>::new_from_config(cfg), &mut bad, &mut cases);
            gate_counts_in_degree::<$dd, _>(&format!("D={} ReducingGate(5)", $dd), ReducingGate::<$dd>::new(5), &mut bad, &mut cases);
            gate_counts_in_degree::<$dd, _>(&format!("D={} ReducingExtensionGate(3)", $dd), ReducingExtensionGate::<$dd>::new(3), &mut bad, &mut cases);
            gate_counts_in_degree::<$dd, _>(&format!("D={} PoseidonMdsGate", $dd), PoseidonMdsGate::<F, $dd>::new(), &mut bad, &mut cases);
            gate_counts_in_degree::<$dd, _>(&format!("D={} RandomAccessGate(2)", $dd), RandomAccessGate::<F, $dd>::new_from_config(cfg, 2), &mut bad, &mut cases);
            gate_counts_in_degree::<$dd, _>(&format!("D={} ExponentiationGate(5)", $dd), ExponentiationGate::<F, $dd>::new(5), &mut bad, &mut cases);
            gate_counts_in_degree::<$dd, _>(&format!("D={} ArithmeticGate", $dd), ArithmeticGate::new_from_config(cfg), &mut bad, &mut cases);
            gate_counts_in_degree::<$dd, _>(&format!("D={} BaseSumGate<2>(10)", $dd), BaseSumGate::<2>::new(10), &mut bad, &mut cases);
        }} }
        in_degree!(4);
        in_degree!(5);
    }
    finish("c07_gates", cases, bad);
}

// C13: optimised Poseidon == naive Poseidon on boundary states (incl. non-canonical representations); sponge chunking
#[test]
fn c13_poseidon_and_sponge() {
    use crate::hash::poseidon::Poseidon;
    use crate::iop::challenger::Challenger;
    let mut bad = Vec::new();
    let mut cases = 0usize;
    let p: u64 = 0xFFFF_FFFF_0000_0001;
    let lat = [0u64, 1, 2, 0xFFFF_FFFF, 0x1_0000_0000, p - 1, p, p + 1, u64::MAX, u64::MAX - 1, 0xFFFF_FFFF_0000_0000, 0x8000_0000_0000_0000, p + 0xFFFF_FFFD];
    let mut s = 0x1234_5678_9ABC_DEF1u64 ^ seed();
    for t in 0..400 {
        let mut st = [F::ZERO; 12];
        for k in 0..12 { s ^= s << 13; s ^= s >> 7; s ^= s << 17; st[k] = F::from_noncanonical_u64(if t % 3 == 0 { lat[(s as usize) % lat.len()] } else if t % 3 == 1 { lat[(t + k) % lat.len()] } else { s }); }
        cases += 1;
        let a = F::poseidon(st); let b = F::poseidon_naive(st);
        if a.iter().zip(b.iter()).any(|(x, y)| x.to_canonical_u64() != y.to_canonical_u64()) { bad.push(format!("poseidon != poseidon_naive on state {:?}", st.iter().map(|x| x.0).collect::<Vec<_>>())); }
        let m1 = F::mds_layer(&st);
        let canon: [F; 12] = core::array::from_fn(|k| F::from_canonical_u64(st[k].to_canonical_u64()));
        let m2 = F::mds_layer(&canon);
        if (0..12).any(|k| m1[k].to_canonical_u64() != m2[k].to_canonical_u64()) { bad.push(format!("mds_layer depends on representation for state {:?}", st.iter().map(|x| x.0).collect::<Vec<_>>())); }
    }
    // absorbing the same elements in any chunking yields the same challenges
    let msg: Vec<F> = (0..37).map(|i| F::from_canonical_u64(i * i + 3)).collect();
    // squeezing is chunking-independent as well: any split of a run of challenge requests (bulk, single, extension, hash) yields the same stream as
    // drawing the challenges one by one
    for plen in [0usize, 1, 7, 8, 9, 13] {
        let pre: Vec<F> = (0..plen).map(|i| F::from_canonical_u64(500 + 3 * i as u64)).collect();
        for chunks in [vec![3usize, 3, 6], vec![2, 2, 4, 2], vec![1, 2], vec![7, 2], vec![8, 1], vec![1, 8], vec![5, 5, 5], vec![6, 3, 8, 2], vec![4, 4, 4, 4, 4], vec![1, 1, 7, 1], vec![9, 2, 9]] {
            let total: usize = chunks.iter().sum();
            let mut one = Challenger::<F, PoseidonHash>::new(); one.observe_elements(&pre);
            let reference: Vec<F> = (0..total).map(|_| one.get_challenge()).collect();
            for style in 0..3 {
                let mut c = Challenger::<F, PoseidonHash>::new(); c.observe_elements(&pre);
                let mut got: Vec<F> = Vec::new();
                for &k in &chunks {
                    match (style, k) {
                        (1, 2) => { let e = c.get_extension_challenge::<D>(); let a: [F; D] = crate::field::extension::FieldExtension::<D>::to_basefield_array(&e); got.extend(a); }
                        (2, 4) => { let h = c.get_hash(); got.extend(h.elements); }
                        _ => got.extend(c.get_n_challenges(k)),
                    }
                }
                cases += 1;
                if got != reference { bad.push(format!("challenger: after {plen} observed elements, squeezing in chunks {chunks:?} (style {style}) differs from squeezing one by one")); }
            }
        }
    }
    // compact() with nothing pending (a whole number of blocks absorbed, or a challenge just drawn) must not disturb the sponge: what follows is unchanged
    for plen in [0usize, 8, 16, 3, 11] { for pre in [0usize, 1] {
        if plen % 8 != 0 && pre == 0 { continue; }   // inputs pending: compact() legitimately absorbs them first
        let mk = || { let mut c = Challenger::<F, PoseidonHash>::new(); c.observe_elements(&(0..plen).map(|i| F::from_canonical_u64(40 + i as u64)).collect::<Vec<_>>()); if pre == 1 { let _ = c.get_challenge(); } c };
        let mut plain = mk(); let mut compacted = mk();
        let _state = compacted.compact();
        plain.observe_element(F::ONE); compacted.observe_element(F::ONE);
        cases += 1;
        if plain.get_n_challenges(4) != compacted.get_n_challenges(4) { bad.push(format!("challenger: compact() after {plen} observed elements{} changes the transcript that follows", if pre == 1 { " and one challenge" } else { "" })); }
    } }
    let mut c0 = Challenger::<F, PoseidonHash>::new(); c0.observe_elements(&msg); let r0 = c0.get_n_challenges(9);
    for split in 0..msg.len() { let mut c = Challenger::<F, PoseidonHash>::new(); c.observe_elements(&msg[..split]); c.observe_elements(&msg[split..]); cases += 1; if c.get_n_challenges(9) != r0 { bad.push(format!("challenger: split at {split} changes the challenges")); } }
    { let mut c = Challenger::<F, PoseidonHash>::new(); for &m in &msg { c.observe_element(m); } cases += 1; if c.get_n_challenges(9) != r0 { bad.push("challenger: element-wise absorption changes the challenges".into()); } }
    // buffered outputs are invalidated by an absorption
    { let mut c = Challenger::<F, PoseidonHash>::new(); c.observe_elements(&msg); let _a = c.get_challenge(); c.observe_element(F::ONE); let b1 = c.get_challenge();
      let mut d = Challenger::<F, PoseidonHash>::new(); d.observe_elements(&msg); let _a = d.get_challenge(); d.observe_element(F::TWO); let b2 = d.get_challenge(); cases += 1;
      if b1 == b2 { bad.push("challenger: challenge after an absorption does not depend on the absorbed element".into()); } }
    // hash_no_pad == sponge over chunks of RATE; two_to_one == compress
    for len in 0..30usize { let v: Vec<F> = (0..len).map(|i| F::from_canonical_u64(7 * i as u64 + 1)).collect(); cases += 1;
        let h = PoseidonHash::hash_no_pad(&v);
        let mut st = [F::ZERO; 12];
        for ch in v.chunks(8) { st[..ch.len()].copy_from_slice(ch); st = F::poseidon_naive(st); }
        if len > 0 && h.elements != [st[0], st[1], st[2], st[3]] { bad.push(format!("hash_no_pad differs from the overwrite-mode sponge for length {len}")); } }
    finish("c13_poseidon_and_sponge", cases, bad);
}

// ---- C20: conditional and cyclic recursion ----
fn c20_inner(with_lookup: bool, x: u64) -> (CircuitData<F, PC, D>, ProofWithPublicInputs<F, PC, D>) { c20_inner_cfg(with_lookup, x, CircuitConfig::standard_recursion_config()) }

fn c20_inner_cfg(with_lookup: bool, x: u64, cfg: CircuitConfig) -> (CircuitData<F, PC, D>, ProofWithPublicInputs<F, PC, D>) {
    use crate::gates::noop::NoopGate;
    use std::sync::Arc;
    let mut builder = CircuitBuilder::<F, D>::new(cfg);
    let mut pw = PartialWitness::new();
    let t = builder.add_virtual_target();
    builder.register_public_input(t);
    pw.set_target(t, F::from_canonical_u64(x)).unwrap();
    let sq = builder.square(t);
    builder.register_public_input(sq);
    if with_lookup {
        let table: Vec<(u16, u16)> = (0..16u16).map(|i| (i, (i * 7 + 3) % 50)).collect();
        let idx = builder.add_lookup_table_from_pairs(Arc::new(table));
        let low = builder.add_virtual_target();
        pw.set_target(low, F::from_canonical_u64(x % 16)).unwrap();
        let out = builder.add_lookup_from_index(low, idx);
        builder.register_public_input(out);
    }
    for _ in 0..64 { builder.add_gate(NoopGate, vec![]); }
    let data = builder.build::<PC>();
    let proof = data.prove(pw).expect("inner proof");
    (data, proof)
}

#[test]
fn c20_conditional() {
    use crate::recursion::dummy_circuit::{dummy_circuit, dummy_proof};
    let mut bad = Vec::new();
    let mut cases = 0usize;
    for with_lookup in [false, true] {
        let tag = if with_lookup { "inner circuit with a lookup table" } else { "plain inner circuit" };
        let (data, p0) = c20_inner(with_lookup, 5);
        let (data_b, p1) = c20_inner(with_lookup, 11);
        if data.verifier_only.circuit_digest != data_b.verifier_only.circuit_digest { bad.push(format!("{tag}: the same circuit built twice has different digests")); continue; }
        // dummy proofs for this shape are valid for their dummy circuit (dummy_circuit refuses, by assertion, shapes it cannot reproduce,
        // e.g. common data with lookup tables: then there is no dummy proof to speak of and the dummy scenarios are skipped)
        let dummy = catch_unwind(AssertUnwindSafe(|| dummy_circuit::<F, PC, D>(&data.common))).ok();
        let mut dproof_opt = None;
        if let Some(dummy_data) = dummy.as_ref() {
            cases += 1;
            match catch_unwind(AssertUnwindSafe(|| dummy_proof::<F, PC, D>(dummy_data, hashbrown::HashMap::new()))) {
                Ok(Ok(p)) => { if dummy_data.verify(p.clone()).is_err() { bad.push(format!("{tag}: dummy proof is not valid for its dummy circuit")); } dproof_opt = Some(p); }
                _ => bad.push(format!("{tag}: dummy_proof failed")),
            }
            cases += 1;
            let mut nz = hashbrown::HashMap::new(); nz.insert(0usize, F::from_canonical_u64(77)); nz.insert(1usize, F::NEG_ONE);
            match catch_unwind(AssertUnwindSafe(|| dummy_proof::<F, PC, D>(dummy_data, nz))) {
                Ok(Ok(p)) => { if p.public_inputs[0] != F::from_canonical_u64(77) || p.public_inputs[1] != F::NEG_ONE || dummy_data.verify(p).is_err() { bad.push(format!("{tag}: dummy proof with chosen public inputs is not valid / does not carry them")); } }
                _ => bad.push(format!("{tag}: dummy_proof with chosen public inputs failed")),
            }
        } else if !with_lookup { bad.push(format!("{tag}: dummy_circuit panicked")); }
        // outer circuits: the condition as a witness bit, and as a build-time constant (true / false)
        for cmode in [None, Some(true), Some(false)] {
        let mtag = match cmode { None => "witness condition", Some(true) => "constant condition true", Some(false) => "constant condition false" };
        let mut builder = CircuitBuilder::<F, D>::new(CircuitConfig::standard_recursion_config());
        let pt0 = builder.add_virtual_proof_with_pis(&data.common);
        let pt1 = builder.add_virtual_proof_with_pis(&data.common);
        let vd0 = builder.add_virtual_verifier_data(data.common.config.fri_config.cap_height);
        let vd1 = builder.add_virtual_verifier_data(data.common.config.fri_config.cap_height);
        let b = match cmode { None => builder.add_virtual_bool_target_safe(), Some(c) => builder.constant_bool(c) };
        builder.conditionally_verify_proof::<PC>(b, &pt0, &vd0, &pt1, &vd1, &data.common);
        let outer = builder.build::<PC>();
        let mut tampered = p1.clone();
        tampered.proof.openings.wires[0] += FE::ONE;
        let mut tampered_pi = p0.clone();
        tampered_pi.public_inputs[1] += F::ONE;
        let mut wrong_vd = data.verifier_only.clone();
        let last = wrong_vd.constants_sigmas_cap.0.len() - 1;
        wrong_vd.constants_sigmas_cap.0[last].elements[3] += F::ONE;
        let mut wrong_digest = data.verifier_only.clone();
        wrong_digest.circuit_digest.elements[0] += F::ONE;
        // (name, condition, proof0, vd0, proof1, vd1, expected acceptance)
        let good = &data.verifier_only;
        let mut scen: Vec<(&str, bool, &ProofWithPublicInputs<F, PC, D>, &crate::plonk::circuit_data::VerifierOnlyCircuitData<PC, D>, &ProofWithPublicInputs<F, PC, D>, &crate::plonk::circuit_data::VerifierOnlyCircuitData<PC, D>, bool)> = vec![
            ("both valid, condition true", true, &p0, good, &p1, good, true),
            ("both valid, condition false", false, &p0, good, &p1, good, true),
            ("selected valid, other one tampered, condition true", true, &p0, good, &tampered, good, true),
            ("selected valid, other one with wrong verifier data, condition false", false, &p0, &wrong_vd, &p1, good, true),
            ("selected proof tampered (opening), condition false", false, &p0, good, &tampered, good, false),
            ("selected proof with altered public input, condition true", true, &tampered_pi, good, &p1, good, false),
            ("selected proof checked against altered cap, condition true", true, &p0, &wrong_vd, &p1, good, false),
            ("selected proof checked against altered digest, condition false", false, &p0, good, &p1, &wrong_digest, false),
        ];
        if let (Some(dummy_data), Some(dproof)) = (dummy.as_ref(), dproof_opt.as_ref()) {
            let dvd = &dummy_data.verifier_only;
            scen.push(("selected valid, other one a dummy proof, condition true", true, &p0, good, dproof, dvd, true));
            scen.push(("selected dummy proof with dummy data, condition false", false, &p0, good, dproof, dvd, true));
            scen.push(("selected dummy proof against the real verifier data, condition false", false, &p0, good, dproof, good, false));
        }
        for (name, cond, pa, va, pb, vb, expect) in scen {
            if cmode.is_some() && cmode != Some(cond) { continue; }
            let name = format!("{mtag}: {name}");
            cases += 1;
            let r = catch_unwind(AssertUnwindSafe(|| -> anyhow::Result<()> {
                let mut pw = PartialWitness::new();
                if cmode.is_none() { pw.set_bool_target(b, cond)?; }
                pw.set_proof_with_pis_target(&pt0, pa)?;
                pw.set_proof_with_pis_target(&pt1, pb)?;
                pw.set_verifier_data_target(&vd0, va)?;
                pw.set_verifier_data_target(&vd1, vb)?;
                let proof = outer.prove(pw)?;
                outer.verify(proof)
            }));
            let accepted = matches!(r, Ok(Ok(())));
            // the oracle is the NATIVE verifier run on the selected proof with the selected verifier data (e.g. an altered cap entry that no query
            // of this particular proof opens is not observable natively either; the proof-of-work search makes the query positions vary per run)
            let (sp, sv) = if cond { (pa, va) } else { (pb, vb) };
            let native = crate::plonk::circuit_data::VerifierCircuitData::<F, PC, D> { verifier_only: sv.clone(), common: data.common.clone() };
            let native_ok = matches!(catch_unwind(AssertUnwindSafe(|| native.verify(sp.clone()))), Ok(Ok(())));
            if expect && !native_ok { bad.push(format!("{tag}: {name}: harness expectation wrong: the native verifier rejects the selected proof")); continue; }
            if accepted != native_ok { bad.push(format!("{tag}: {name}: outer circuit {} but the native verifier {} the selected proof under the selected verifier data", if accepted { "ACCEPTED" } else { "not provable/accepted" }, if native_ok { "accepts" } else { "rejects" })); }
        }
        }
    }
    finish("c20_conditional", cases, bad);
}

// C20: "dummy proofs generated for a circuit shape are always valid for their dummy circuit" - including the base proofs of cyclic recursion, which
// carry verifier data and caller-chosen values in their public inputs
#[test]
fn c20_cyclic_base_proof() {
    use crate::gates::noop::NoopGate;
    use crate::recursion::dummy_circuit::{cyclic_base_proof, dummy_circuit};
    let mut bad = Vec::new();
    let mut cases = 0usize;
    for (cap_height, extra, gates) in [(4usize, 3usize, 40usize), (1, 0, 5), (0, 9, 300), (2, 1, 100)] {
        let mut config = CircuitConfig::standard_recursion_config();
        config.fri_config.cap_height = cap_height;
        let vd_len = 4 + 4 * (1usize << cap_height);
        let mut builder = CircuitBuilder::<F, D>::new(config);
        let mut pw = PartialWitness::new();
        for i in 0..extra + vd_len { let t = builder.add_virtual_public_input(); pw.set_target(t, F::from_canonical_usize(i)).unwrap(); }
        for _ in 0..gates { builder.add_gate(NoopGate, vec![]); }
        let data = builder.build::<PC>();
        let tag = format!("shape with cap height {cap_height}, {} public inputs, {} rows", data.common.num_public_inputs, data.common.degree());
        let vk = &data.verifier_only;
        for (dense, nz) in [(false, vec![]), (false, vec![(0usize, F::from_canonical_u64(7))]), (false, (0..extra).map(|i| (i, F::NEG_ONE - F::from_canonical_usize(i))).collect::<Vec<_>>()),
                            (true, (0..extra).map(|i| (i, F::from_canonical_usize(3 * i + 1))).collect::<Vec<_>>())] {
            if nz.iter().any(|&(i, _)| i >= extra) { continue; }
            cases += 1;
            let mut nzm: hashbrown::HashMap<usize, F> = nz.iter().copied().collect();
            // a caller that enumerates EVERY public input (zeros for the ones it does not care about): the verifier data still go where they belong
            if dense { for i in extra..extra + vd_len { nzm.insert(i, F::ZERO); } }
            let proof = match catch_unwind(AssertUnwindSafe(|| cyclic_base_proof::<F, PC, D>(&data.common, vk, nzm))) { Ok(p) => p, Err(_) => { bad.push(format!("{tag}: cyclic_base_proof panicked")); continue; } };
            // public inputs: chosen values, zeros, then the verifier data
            let mut want = vec![F::ZERO; extra];
            for &(i, v) in &nz { want[i] = v; }
            want.extend(vk.circuit_digest.elements);
            for h in &vk.constants_sigmas_cap.0 { want.extend(h.elements); }
            if proof.public_inputs != want { bad.push(format!("{tag}: base proof does not carry the requested public inputs / verifier data")); }
            match catch_unwind(AssertUnwindSafe(|| dummy_circuit::<F, PC, D>(&data.common).verify(proof.clone()))) {
                Ok(Ok(())) => {}
                Ok(Err(e)) => bad.push(format!("{tag}, {} chosen inputs: cyclic base proof is NOT valid for its dummy circuit: {e}", nz.len())),
                Err(_) => bad.push(format!("{tag}: verification of the base proof PANICKED")),
            }
            // and it is a proof about exactly these public inputs
            cases += 1;
            let mut p2 = proof.clone(); let k = p2.public_inputs.len() - 1; p2.public_inputs[k] += F::ONE;
            if let Ok(Ok(())) = catch_unwind(AssertUnwindSafe(|| dummy_circuit::<F, PC, D>(&data.common).verify(p2))) { bad.push(format!("{tag}: base proof with an altered embedded verifier-data element is still valid for the dummy circuit")); }
        }
    }
    finish("c20_cyclic_base_proof", cases, bad);
}

// C20: conditionally_verify_proof_or_dummy verifies the SUPPLIED proof when the condition holds and the generated dummy proof otherwise
#[test]
fn c20_proof_or_dummy() {
    let mut bad = Vec::new();
    let mut cases = 0usize;
    // inner circuit shapes: the outer circuit's own FRI cap height (4) and smaller ones
    for inner_cap in [4usize, 3, 1] {
    let mut icfg = CircuitConfig::standard_recursion_config(); icfg.fri_config.cap_height = inner_cap;
    let (data, p_ok) = c20_inner_cfg(false, 5, icfg);
    let mut p_bad = p_ok.clone(); p_bad.public_inputs[1] += F::ONE;
    let mut p_bad2 = p_ok.clone(); p_bad2.proof.openings.wires[0] += FE::ONE;
    let mut wrong_vd = data.verifier_only.clone(); wrong_vd.circuit_digest.elements[0] += F::ONE;
    let mut builder = CircuitBuilder::<F, D>::new(CircuitConfig::standard_recursion_config());
    let pt = builder.add_virtual_proof_with_pis(&data.common);
    let vd = builder.add_virtual_verifier_data(data.common.config.fri_config.cap_height);
    let b = builder.add_virtual_bool_target_safe();
    let built = catch_unwind(AssertUnwindSafe(move || { builder.conditionally_verify_proof_or_dummy::<PC>(b, &pt, &vd, &data.common).map(|_| (builder.build::<PC>(), pt, vd, data)) }));
    cases += 1;
    let Ok(Ok((outer, pt, vd, data))) = built else { bad.push(format!("inner cap height {inner_cap}: building a circuit with conditionally_verify_proof_or_dummy failed / PANICKED")); continue; };
    let good = &data.verifier_only;
    for (name, cond, proof, vdata, expect) in [
        ("condition true, valid proof", true, &p_ok, good, true),
        ("condition false, valid proof", false, &p_ok, good, true),
        ("condition false, proof with an altered public input (irrelevant: the dummy proof is verified)", false, &p_bad, good, true),
        ("condition false, valid proof with foreign verifier data (irrelevant)", false, &p_ok, &wrong_vd, true),
        ("condition true, proof with an altered public input", true, &p_bad, good, false),
        ("condition true, proof with an altered opening", true, &p_bad2, good, false),
        ("condition true, valid proof checked against a foreign circuit digest", true, &p_ok, &wrong_vd, false),
    ] {
        cases += 1;
        let r = catch_unwind(AssertUnwindSafe(|| -> anyhow::Result<()> {
            let mut pw = PartialWitness::new();
            pw.set_bool_target(b, cond)?;
            pw.set_proof_with_pis_target(&pt, proof)?;
            pw.set_verifier_data_target(&vd, vdata)?;
            let p = outer.prove(pw)?;
            outer.verify(p)
        }));
        let accepted = matches!(r, Ok(Ok(())));
        if accepted != expect { bad.push(format!("inner cap height {inner_cap}: {name}: outer circuit {}", if accepted { "ACCEPTED" } else { "not provable / not accepted" })); }
    }
    }
    finish("c20_proof_or_dummy", cases, bad);
}

// C20: both branches' verifier data given as circuit CONSTANTS; and two inner circuits with the same constants/sigmas cap but different digests
#[test]
fn c20_constant_verifier_data() {
    let mut bad = Vec::new();
    let mut cases = 0usize;
    // inner circuits A, B: same gates, B has a domain separator -> same cap, different circuit digest; C: another circuit altogether
    let mk = |sep: Option<u64>, extra: usize| -> (CircuitData<F, PC, D>, ProofWithPublicInputs<F, PC, D>) {
        let mut b = CircuitBuilder::<F, D>::new(CircuitConfig::standard_recursion_config());
        if let Some(sv) = sep { b.set_domain_separator(vec![F::from_canonical_u64(sv)]); }
        let t = b.add_virtual_target(); b.register_public_input(t);
        let mut cur = t; for _ in 0..3 + extra { cur = b.mul(cur, t); }
        b.register_public_input(cur);
        for _ in 0..40 { b.add_gate(crate::gates::noop::NoopGate, vec![]); }
        let data = b.build::<PC>();
        let mut pw = PartialWitness::new(); pw.set_target(t, F::from_canonical_u64(3)).unwrap();
        let proof = data.prove(pw).expect("inner proof");
        (data, proof)
    };
    let (da, pa) = mk(None, 0);
    let (db, pb) = mk(Some(12345), 0);
    let (dc, pc) = mk(None, 1);
    if da.common != db.common || da.common != dc.common { finish("c20_constant_verifier_data", 1, vec!["harness: the inner circuits do not share their common data".into()]); return; }
    for (pair, d0, p0, d1, p1) in [("twins differing in the domain separator only", &da, &pa, &db, &pb), ("two different circuits", &da, &pa, &dc, &pc)] {
        for constant_vd in [true, false] {
            let mut builder = CircuitBuilder::<F, D>::new(CircuitConfig::standard_recursion_config());
            let pt0 = builder.add_virtual_proof_with_pis(&da.common);
            let pt1 = builder.add_virtual_proof_with_pis(&da.common);
            let (vd0, vd1) = if constant_vd { (builder.constant_verifier_data(&d0.verifier_only), builder.constant_verifier_data(&d1.verifier_only)) }
                             else { (builder.add_virtual_verifier_data(da.common.config.fri_config.cap_height), builder.add_virtual_verifier_data(da.common.config.fri_config.cap_height)) };
            let b = builder.add_virtual_bool_target_safe();
            builder.conditionally_verify_proof::<PC>(b, &pt0, &vd0, &pt1, &vd1, &da.common);
            let outer = builder.build::<PC>();
            // (condition, proof in slot 0, proof in slot 1): the selected proof must be a proof of the selected circuit
            for (cond, q0, q1, expect) in [(true, p0, p1, true), (false, p0, p1, true), (true, p1, p1, false), (false, p0, p0, false), (true, p0, p0, true), (false, p1, p1, true)] {
                cases += 1;
                let r = catch_unwind(AssertUnwindSafe(|| -> anyhow::Result<()> {
                    let mut pw = PartialWitness::new();
                    pw.set_bool_target(b, cond)?; pw.set_proof_with_pis_target(&pt0, q0)?; pw.set_proof_with_pis_target(&pt1, q1)?;
                    if !constant_vd { pw.set_verifier_data_target(&vd0, &d0.verifier_only)?; pw.set_verifier_data_target(&vd1, &d1.verifier_only)?; }
                    let p = outer.prove(pw)?; outer.verify(p)
                }));
                let accepted = matches!(r, Ok(Ok(())));
                // for twins the digest is the only thing that tells the circuits apart; a proof of A is not a proof of B
                if accepted != expect { bad.push(format!("{pair}, verifier data as {}: condition {cond}: outer circuit {} (expected {})", if constant_vd { "constants" } else { "witness" }, if accepted { "ACCEPTED" } else { "not provable / not accepted" }, if expect { "acceptance" } else { "refusal" })); }
            }
        }
    }
    finish("c20_constant_verifier_data", cases, bad);
}

#[test]
fn c20_verifier_data_check() {
    use crate::recursion::cyclic_recursion::check_cyclic_proof_verifier_data;
    use crate::field::types::Sample;
    let mut bad = Vec::new();
    let mut cases = 0usize;
    for cap_height in [0usize, 1, 2, 4] {
        let mut config = CircuitConfig::standard_recursion_config();
        config.fri_config.cap_height = cap_height;
        let (data, proof) = circuit::<PC>(config, 4, 3, false);
        let vd = data.verifier_only.clone();
        let cap_len = 1usize << cap_height;
        for lead in [0usize, 1, 9] {
            let mut pis: Vec<F> = F::rand_vec(lead);
            pis.extend(vd.circuit_digest.elements);
            for h in &vd.constants_sigmas_cap.0 { pis.extend(h.elements); }
            let mut p = proof.clone();
            p.public_inputs = pis.clone();
            cases += 1;
            match catch_unwind(AssertUnwindSafe(|| check_cyclic_proof_verifier_data(&p, &vd, &data.common))) {
                Ok(Ok(())) => {}
                Ok(Err(_)) => bad.push(format!("cap height {cap_height}, {lead} leading inputs: matching embedded verifier data rejected")),
                Err(_) => bad.push(format!("cap height {cap_height}, {lead} leading inputs: check PANICKED on matching data")),
            }
            // every single embedded element altered
            for k in 0..4 + 4 * cap_len {
                let mut p2 = p.clone();
                p2.public_inputs[lead + k] += F::ONE;
                cases += 1;
                match catch_unwind(AssertUnwindSafe(|| check_cyclic_proof_verifier_data(&p2, &vd, &data.common))) {
                    Ok(Ok(())) => bad.push(format!("cap height {cap_height}, {lead} leading inputs: embedded element {k} altered ({}), check still passes", if k < 4 { "digest" } else { "cap" })),
                    Ok(Err(_)) => {}
                    Err(_) => bad.push(format!("cap height {cap_height}: check PANICKED on altered element {k}")),
                }
            }
            // every single element of the actual verifier data altered
            for k in 0..4 + 4 * cap_len {
                let mut vd2 = vd.clone();
                if k < 4 { vd2.circuit_digest.elements[k] += F::ONE; } else { vd2.constants_sigmas_cap.0[(k - 4) / 4].elements[(k - 4) % 4] += F::ONE; }
                cases += 1;
                if let Ok(Ok(())) = catch_unwind(AssertUnwindSafe(|| check_cyclic_proof_verifier_data(&p, &vd2, &data.common))) { bad.push(format!("cap height {cap_height}: verifier data element {k} altered, check still passes")); }
            }
            // too few public inputs: clean error
            for cut in [1usize, 4, 4 * cap_len, 3 + 4 * cap_len] {
                if cut > lead { let mut p2 = p.clone(); p2.public_inputs.drain(0..cut.min(p2.public_inputs.len())); cases += 1;
                    match catch_unwind(AssertUnwindSafe(|| check_cyclic_proof_verifier_data(&p2, &vd, &data.common))) { Ok(Ok(())) => bad.push(format!("cap height {cap_height}: {} public inputs accepted", p2.public_inputs.len())), Ok(Err(_)) => {}, Err(_) => bad.push(format!("cap height {cap_height}: check PANICKED on {} public inputs", p2.public_inputs.len())) } }
            }
        }
    }
    finish("c20_verifier_data_check", cases, bad);
}

// thorough tier: a cyclic hash chain (base case + 2 steps), and chains whose embedded verifier data differ from the circuit's own
#[test]
fn t20_cyclic_chain() {
    use crate::gates::noop::NoopGate;
    use crate::hash::hash_types::HashOutTarget;
    use crate::recursion::cyclic_recursion::check_cyclic_proof_verifier_data;
    use crate::recursion::dummy_circuit::cyclic_base_proof;
    let mut bad = Vec::new();
    let mut cases = 0usize;
    // common data usable for recursion (same construction as the repository's own cyclic test)
    let common_for_recursion = || {
        let builder = CircuitBuilder::<F, D>::new(CircuitConfig::standard_recursion_config());
        let data = builder.build::<PC>();
        let mut builder = CircuitBuilder::<F, D>::new(CircuitConfig::standard_recursion_config());
        let proof = builder.add_virtual_proof_with_pis(&data.common);
        let vd = builder.add_virtual_verifier_data(data.common.config.fri_config.cap_height);
        builder.verify_proof::<PC>(&proof, &vd, &data.common);
        let data = builder.build::<PC>();
        let mut builder = CircuitBuilder::<F, D>::new(CircuitConfig::standard_recursion_config());
        let proof = builder.add_virtual_proof_with_pis(&data.common);
        let vd = builder.add_virtual_verifier_data(data.common.config.fri_config.cap_height);
        builder.verify_proof::<PC>(&proof, &vd, &data.common);
        while builder.num_gates() < 1 << 12 { builder.add_gate(NoopGate, vec![]); }
        builder.build::<PC>().common
    };
    let mut builder = CircuitBuilder::<F, D>::new(CircuitConfig::standard_recursion_config());
    let one = builder.one();
    let initial_hash_target = builder.add_virtual_hash();
    builder.register_public_inputs(&initial_hash_target.elements);
    let current_hash_in = builder.add_virtual_hash();
    let current_hash_out = builder.hash_n_to_hash_no_pad::<PoseidonHash>(current_hash_in.elements.to_vec());
    builder.register_public_inputs(&current_hash_out.elements);
    let counter = builder.add_virtual_public_input();
    let mut common_data = common_for_recursion();
    let verifier_data_target = builder.add_verifier_data_public_inputs();
    common_data.num_public_inputs = builder.num_public_inputs();
    let condition = builder.add_virtual_bool_target_safe();
    let inner = builder.add_virtual_proof_with_pis(&common_data);
    let inner_pis = &inner.public_inputs;
    let inner_initial_hash = HashOutTarget::try_from(&inner_pis[0..4]).unwrap();
    let inner_latest_hash = HashOutTarget::try_from(&inner_pis[4..8]).unwrap();
    let inner_counter = inner_pis[8];
    builder.connect_hashes(initial_hash_target, inner_initial_hash);
    let actual_hash_in = builder.select_hash(condition, inner_latest_hash, initial_hash_target);
    builder.connect_hashes(current_hash_in, actual_hash_in);
    let new_counter = builder.mul_add(condition.target, inner_counter, one);
    builder.connect(counter, new_counter);
    builder.conditionally_verify_cyclic_proof_or_dummy::<PC>(condition, &inner, &common_data).unwrap();
    let cyc = builder.build::<PC>();
    let real_vk = cyc.verifier_only.clone();
    let initial_hash = [F::ZERO, F::ONE, F::TWO, F::from_canonical_usize(3)];
    let initial_pis: hashbrown::HashMap<usize, F> = initial_hash.into_iter().enumerate().collect();
    let step = |cond: bool, inner_proof: &ProofWithPublicInputs<F, PC, D>, vk: &crate::plonk::circuit_data::VerifierOnlyCircuitData<PC, D>| -> Result<ProofWithPublicInputs<F, PC, D>, String> {
        match catch_unwind(AssertUnwindSafe(|| -> anyhow::Result<ProofWithPublicInputs<F, PC, D>> {
            let mut pw = PartialWitness::new();
            pw.set_bool_target(condition, cond)?;
            pw.set_proof_with_pis_target::<PC, D>(&inner, inner_proof)?;
            pw.set_verifier_data_target(&verifier_data_target, vk)?;
            let p = cyc.prove(pw)?;
            cyc.verify(p.clone())?;
            Ok(p)
        })) { Ok(Ok(p)) => Ok(p), Ok(Err(e)) => Err(format!("{e}")), Err(_) => Err("panicked".into()) }
    };
    // honest chain: base + 2 steps, each verifies, carries the circuit's verifier data, and the chain values are right
    let base_inner = cyclic_base_proof(&common_data, &real_vk, initial_pis.clone());
    let mut chain = Vec::new();
    let mut prev = base_inner.clone();
    for k in 0..3 {
        cases += 1;
        match step(k > 0, &prev, &real_vk) {
            Ok(p) => {
                if check_cyclic_proof_verifier_data(&p, &real_vk, &cyc.common).is_err() { bad.push(format!("honest chain step {k}: verifier-data check fails")); }
                if p.public_inputs[8] != F::from_canonical_usize(k + 1) { bad.push(format!("honest chain step {k}: counter is {}", p.public_inputs[8])); }
                let mut h = initial_hash; for _ in 0..=k { h = crate::hash::hashing::hash_n_to_hash_no_pad::<F, crate::hash::poseidon::PoseidonPermutation<F>>(&h).elements; }
                if p.public_inputs[4..8] != h { bad.push(format!("honest chain step {k}: wrong chain tip")); }
                prev = p.clone(); chain.push(p);
            }
            Err(e) => { bad.push(format!("honest chain step {k} not provable/accepted: {e}")); break; }
        }
    }
    // embedded verifier data that differ in ONE element (digest element, first / middle / last cap element)
    let cap_n = real_vk.constants_sigmas_cap.0.len();
    for (what, slot) in [("digest element 0", 0usize), ("first cap entry", 4), ("cap entry 4", 4 + 4 * 4.min(cap_n - 1) + 1), ("last cap entry", 4 + 4 * (cap_n - 1) + 2)] {
        let mut foreign = real_vk.clone();
        if slot < 4 { foreign.circuit_digest.elements[slot] += F::ONE; } else { foreign.constants_sigmas_cap.0[(slot - 4) / 4].elements[(slot - 4) % 4] += F::ONE; }
        // (a) base proof embeds the foreign data, outer exposes the real ones
        cases += 1;
        if step(false, &cyclic_base_proof(&common_data, &foreign, initial_pis.clone()), &real_vk).is_ok() { bad.push(format!("base proof embedding foreign verifier data ({what}) accepted under the real data")); }
        // (b) step 1 exposes the foreign data (valid as a proof, refused by the out-of-circuit check); step 2 under the real data must fail
        cases += 1;
        if let Ok(p1) = step(false, &cyclic_base_proof(&common_data, &foreign, initial_pis.clone()), &foreign) {
            if check_cyclic_proof_verifier_data(&p1, &real_vk, &cyc.common).is_ok() { bad.push(format!("step carrying foreign verifier data ({what}) passes the verifier-data check")); }
            if let Ok(p2) = step(true, &p1, &real_vk) { if check_cyclic_proof_verifier_data(&p2, &real_vk, &cyc.common).is_ok() { bad.push(format!("chain over a step with foreign verifier data ({what}) accepted")); } }
        }
    }
    // a tampered inner proof is not accepted when selected
    if let Some(p) = chain.first() { let mut t = p.clone(); t.public_inputs[8] += F::ONE; cases += 1; if step(true, &t, &real_vk).is_ok() { bad.push("chain step over an inner proof with altered counter accepted".into()); } }
    finish("t20_cyclic_chain", cases, bad);
}

// thorough tier: a cyclic circuit that folds TWO previous proofs of itself per step (tree aggregation).  Every slot must enforce that the inner
// proof carries the circuit's own verifier data.
#[test]
fn t20_cyclic_two_slots() {
    use crate::gates::noop::NoopGate;
    use crate::recursion::cyclic_recursion::check_cyclic_proof_verifier_data;
    use crate::recursion::dummy_circuit::{cyclic_base_proof, dummy_circuit};
    let mut bad = Vec::new();
    let mut cases = 0usize;
    let common_for_recursion = || {
        let builder = CircuitBuilder::<F, D>::new(CircuitConfig::standard_recursion_config());
        let data = builder.build::<PC>();
        let mut builder = CircuitBuilder::<F, D>::new(CircuitConfig::standard_recursion_config());
        let proof = builder.add_virtual_proof_with_pis(&data.common);
        let vd = builder.add_virtual_verifier_data(data.common.config.fri_config.cap_height);
        builder.verify_proof::<PC>(&proof, &vd, &data.common);
        let data = builder.build::<PC>();
        let mut builder = CircuitBuilder::<F, D>::new(CircuitConfig::standard_recursion_config());
        let proof = builder.add_virtual_proof_with_pis(&data.common);
        let vd = builder.add_virtual_verifier_data(data.common.config.fri_config.cap_height);
        builder.verify_proof::<PC>(&proof, &vd, &data.common);
        while builder.num_gates() < 1 << 13 { builder.add_gate(NoopGate, vec![]); }
        builder.build::<PC>().common
    };
    let mut builder = CircuitBuilder::<F, D>::new(CircuitConfig::standard_recursion_config());
    let count = builder.add_virtual_public_input();   // number of nodes below and including this one
    let mut common = common_for_recursion();
    let vd_target = builder.add_verifier_data_public_inputs();
    common.num_public_inputs = builder.num_public_inputs();
    let cond = [builder.add_virtual_bool_target_safe(), builder.add_virtual_bool_target_safe()];
    let slot = [builder.add_virtual_proof_with_pis(&common), builder.add_virtual_proof_with_pis(&common)];
    let one = builder.one();
    let c0 = builder.mul_add(cond[0].target, slot[0].public_inputs[0], one);
    let c1 = builder.mul_add(cond[1].target, slot[1].public_inputs[0], c0);
    builder.connect(count, c1);
    for i in 0..2 { builder.conditionally_verify_cyclic_proof_or_dummy::<PC>(cond[i], &slot[i], &common).unwrap(); }
    let cyc = match catch_unwind(AssertUnwindSafe(|| builder.build::<PC>())) { Ok(d) => d, Err(_) => { finish("t20_cyclic_two_slots", 1, vec!["a cyclic circuit with two self-verification slots cannot be built".into()]); return; } };
    let real_vk = cyc.verifier_only.clone();
    type VK = crate::plonk::circuit_data::VerifierOnlyCircuitData<PC, D>;
    let step = |own: &VK, inner: [(bool, &ProofWithPublicInputs<F, PC, D>); 2]| -> Result<ProofWithPublicInputs<F, PC, D>, String> {
        match catch_unwind(AssertUnwindSafe(|| -> anyhow::Result<ProofWithPublicInputs<F, PC, D>> {
            let mut pw = PartialWitness::new();
            for i in 0..2 { pw.set_bool_target(cond[i], inner[i].0)?; pw.set_proof_with_pis_target::<PC, D>(&slot[i], inner[i].1)?; }
            pw.set_verifier_data_target(&vd_target, own)?;
            let p = cyc.prove(pw)?;
            cyc.verify(p.clone())?;
            Ok(p)
        })) { Ok(Ok(p)) => Ok(p), Ok(Err(e)) => Err(format!("{e}")), Err(_) => Err("panicked".into()) }
    };
    let base = cyclic_base_proof(&common, &real_vk, hashbrown::HashMap::new());
    cases += 1;
    let leaf = match step(&real_vk, [(false, &base), (false, &base)]) { Ok(p) => p, Err(e) => { bad.push(format!("honest leaf not provable/accepted: {e}")); finish("t20_cyclic_two_slots", cases, bad); return; } };
    if check_cyclic_proof_verifier_data(&leaf, &real_vk, &cyc.common).is_err() { bad.push("honest leaf fails the verifier-data check".into()); }
    if leaf.public_inputs[0] != F::ONE { bad.push("honest leaf: wrong count".into()); }
    // honest nodes: both slots, only the first, only the second
    for (ca, cb, want) in [(true, true, 3u64), (true, false, 2), (false, true, 2)] {
        cases += 1;
        match step(&real_vk, [(ca, &leaf), (cb, &leaf)]) {
            Ok(p) => { if check_cyclic_proof_verifier_data(&p, &real_vk, &cyc.common).is_err() || p.public_inputs[0] != F::from_canonical_u64(want) { bad.push(format!("honest node (slots used: {ca}, {cb}): wrong count or verifier data")); } }
            Err(e) => bad.push(format!("honest node (slots used: {ca}, {cb}) not provable/accepted: {e}")),
        }
    }
    // a valid proof of this very circuit that embeds FOREIGN verifier data (those of the dummy circuit; and the real ones with one element changed)
    let dummy_vk = dummy_circuit::<F, PC, D>(&common).verifier_only.clone();
    let mut near_vk = real_vk.clone(); let last = near_vk.constants_sigmas_cap.0.len() - 1; near_vk.constants_sigmas_cap.0[last].elements[3] += F::ONE;
    for (what, foreign) in [("the dummy circuit's verifier data", &dummy_vk), ("verifier data differing in the last cap element", &near_vk)] {
        let fbase = cyclic_base_proof(&common, foreign, hashbrown::HashMap::new());
        let rogue = match step(foreign, [(false, &fbase), (false, &fbase)]) { Ok(p) => p, Err(_) => continue };
        cases += 1;
        if check_cyclic_proof_verifier_data(&rogue, &real_vk, &cyc.common).is_ok() { bad.push(format!("proof embedding {what} passes the verifier-data check")); }
        for (name, inner) in [("slot 0", [(true, &rogue), (false, &base)]), ("slot 1", [(false, &base), (true, &rogue)]), ("slot 1 next to an honest proof in slot 0", [(true, &leaf), (true, &rogue)]), ("slot 0 next to an honest proof in slot 1", [(true, &rogue), (true, &leaf)])] {
            cases += 1;
            if let Ok(p) = step(&real_vk, inner) { if check_cyclic_proof_verifier_data(&p, &real_vk, &cyc.common).is_ok() { bad.push(format!("inner proof embedding {what} ACCEPTED in {name}; the outer proof passes the verifier-data check")); } }
        }
        // (an unselected slot is NOT exempt: the embedded verifier data of every slot are tied to the circuit's own unconditionally, which is why base
        // proofs carry them; nothing is claimed about that case here)
    }
    finish("t20_cyclic_two_slots", cases, bad);
}

// ---- C02 / C08: adversarial witnesses ----
// A corrupted assignment is handed to the ordinary proving protocol (prove_with_partition_witness runs no consistency check of its own
// in this configuration). `violates` is an independent oracle: it re-evaluates every gate of every row natively, re-checks every copy class
// of the ORIGINAL circuit and (for lookups) nothing else; a corruption that still satisfies the circuit is not a case.
struct Adv<'a> {
    data: &'a CircuitData<F, PC, D>,
    values: Vec<Option<F>>,       // per representative
    map: Vec<usize>,              // target index -> representative (possibly altered)
}

impl<'a> Adv<'a> {
    fn new(data: &'a CircuitData<F, PC, D>, pw: PartialWitness<F>) -> Option<Self> {
        let w = crate::iop::generator::generate_partial_witness(pw, &data.prover_only, &data.common).ok()?;
        Some(Adv { data, values: w.values.clone(), map: data.prover_only.representative_map.clone() })
    }
    fn tindex(&self, t: crate::iop::target::Target) -> usize { t.index(self.data.common.config.num_wires, self.data.common.degree()) }
    fn get(&self, t: crate::iop::target::Target) -> F { self.values[self.map[self.tindex(t)]].unwrap_or(F::ZERO) }
    /// change the value of the whole copy class of `t`
    fn set_class(&mut self, t: crate::iop::target::Target, v: F) { let r = self.map[self.tindex(t)]; self.values[r] = Some(v); }
    /// change one cell only: the target leaves its copy class
    fn set_cell(&mut self, t: crate::iop::target::Target, v: F) { let i = self.tindex(t); self.map[i] = self.values.len(); self.values.push(Some(v)); }
    fn wire(&self, row: usize, column: usize) -> F { self.get(crate::iop::target::Target::wire(row, column)) }
    fn public_inputs(&self) -> Vec<F> { self.data.prover_only.public_inputs.iter().map(|&t| self.get(t)).collect() }

    /// does the assignment violate a gate relation, a copy constraint of the original circuit, or the public-input link?
    fn violates(&self) -> bool { self.violation_kind() != 0 }

    /// 0: satisfies the circuit; 1: only copy constraints are violated (every gate relation holds); 2: some gate relation is violated
    fn violation_kind(&self) -> u8 {
        let mut copy_violated = false;
        use crate::plonk::vars::EvaluationVars;
        let common = &self.data.common;
        let n = common.degree();
        let orig = &self.data.prover_only.representative_map;
        // copy classes of the original circuit, over the cells of the trace (virtual targets are not part of the assignment the proof
        // speaks about; the declared public inputs are tied to the trace by the PublicInputGate relation evaluated below)
        let mut class_val: std::collections::HashMap<usize, F> = std::collections::HashMap::new();
        for i in 0..n * common.config.num_wires {
            if let Some(v) = self.values[self.map[i]] {
                match class_val.get(&orig[i]) { Some(&u) => { if u != v { copy_violated = true; } } None => { class_val.insert(orig[i], v); } }
            }
        }
        // gate relations, row by row, with the constants of the built circuit
        let consts: Vec<Vec<F>> = (0..common.num_constants).map(|k| self.data.prover_only.constants_sigmas_commitment.polynomials[k].clone().fft().values).collect();
        let nsel = common.selectors_info.num_selectors();
        let pih = <PC as GenericConfig<D>>::InnerHasher::hash_no_pad(&self.public_inputs());
        for r in 0..n {
            let lc: Vec<FE> = consts.iter().map(|c| c[r].into()).collect();
            let lw: Vec<FE> = (0..common.config.num_wires).map(|c| self.wire(r, c).into()).collect();
            for (i, g) in common.gates.iter().enumerate() {
                let s = common.selectors_info.selector_indices[i];
                if consts[s][r] != F::from_canonical_usize(i) { continue; }
                let vars = EvaluationVars { local_constants: &lc[nsel + common.num_lookup_selectors..], local_wires: &lw, public_inputs_hash: &pih };
                if g.0.eval_unfiltered(vars).iter().any(|c| !c.is_zero()) { return 2; }
            }
        }
        if copy_violated { 1 } else { 0 }
    }

    /// the same assignment under the degenerate prover strategies of the property's catalogue (needs the guarded prover hooks of /repo,
    /// cargo feature `verif_hooks`; without them only the ordinary protocol is run)
    fn outcomes_adversarial(&self) -> Vec<(&'static str, &'static str)> {
        let mut v = Vec::new();
        #[cfg(feature = "verif_hooks")]
        {
            use crate::plonk::prover::verif_hooks::{set, Strategy};
            for (name, st) in [
                ("all-zero permutation accumulator", Strategy { zero_permutation_polys: true, lenient_quotient_truncation: true, ..Strategy::default() }),
                ("quotient truncated instead of aborting", Strategy { lenient_quotient_truncation: true, ..Strategy::default() }),
                ("quotient altered for challenge 0", Strategy { perturb_quotient_of_challenge: Some(0), lenient_quotient_truncation: true, ..Strategy::default() }),
                ("quotient altered for the last challenge, zero accumulator", Strategy { zero_permutation_polys: true, perturb_quotient_of_challenge: Some(self.data.common.config.num_challenges - 1), lenient_quotient_truncation: true, ..Strategy::default() }),
            ] {
                set(st);
                let o = self.outcome();
                set(Strategy::default());
                v.push((name, o));
            }
        }
        v
    }

    /// the same assignment handed to a prover that starts the running sum of every lookup table at the offset that makes it end at zero
    /// (guarded hook `offset_lookup_sums`): only an argument that pins the START of the sum rejects a pair that is not in the table
    fn outcomes_lookup_adversarial(&self) -> Vec<(&'static str, &'static str)> {
        let mut v = Vec::new();
        #[cfg(feature = "verif_hooks")]
        {
            use crate::plonk::prover::verif_hooks::{set, Strategy};
            for (name, st) in [
                ("lookup running sums started at a chosen offset", Strategy { offset_lookup_sums: true, ..Strategy::default() }),
                ("lookup running sums started at a chosen offset, quotient truncated", Strategy { offset_lookup_sums: true, lenient_quotient_truncation: true, ..Strategy::default() }),
                ("table-check polynomial started at the value that makes it end at the declared table", Strategy { offset_lookup_re: true, ..Strategy::default() }),
                ("table-check polynomial and running sums both started at chosen values", Strategy { offset_lookup_re: true, offset_lookup_sums: true, ..Strategy::default() }),
            ] {
                set(st);
                let o = self.outcome();
                set(Strategy::default());
                v.push((name, o));
            }
        }
        v
    }

    /// run the proving protocol on the assignment; "ACCEPTED" if the verifier accepts what comes back
    fn outcome(&self) -> &'static str {
        let pwit = crate::iop::witness::PartitionWitness { values: self.values.clone(), representative_map: &self.map, num_wires: self.data.common.config.num_wires, degree: self.data.common.degree() };
        let r = catch_unwind(AssertUnwindSafe(|| crate::plonk::prover::prove_with_partition_witness(&self.data.prover_only, &self.data.common, pwit, &mut crate::util::timing::TimingTree::default())));
        match r {
            Ok(Ok(p)) => match catch_unwind(AssertUnwindSafe(|| self.data.verify(p))) { Ok(Ok(())) => "ACCEPTED", Ok(Err(_)) => "rejected", Err(_) => "verifier PANICKED" },
            Ok(Err(_)) => "prover error",
            Err(_) => "prover panicked",
        }
    }
}

fn c02_circuits(cfg: &CircuitConfig) -> Vec<(&'static str, CircuitData<F, PC, D>, PartialWitness<F>)> {
    use std::sync::Arc;
    let mut out = Vec::new();
    {   // arithmetic with public inputs, constants, a range check, a boolean, an equality and a zero assertion
        let mut b = CircuitBuilder::<F, D>::new(cfg.clone());
        let x = b.add_virtual_target(); let y = b.add_virtual_target(); let bit = b.add_virtual_bool_target_safe();
        b.register_public_input(x);
        let xy = b.mul(x, y); let s = b.add(xy, x); let c = b.constant(F::from_canonical_u64(21)); b.connect(s, c);
        b.range_check(y, 8);
        let sel = b.select(bit, x, y); b.register_public_input(sel);
        let d = b.sub(sel, x); b.assert_zero(d);
        let sq = b.square(xy); b.register_public_input(sq);
        let mut pw = PartialWitness::new();
        pw.set_target(x, F::from_canonical_u64(3)).unwrap(); pw.set_target(y, F::from_canonical_u64(6)).unwrap(); pw.set_bool_target(bit, true).unwrap();
        out.push(("arithmetic/assertions", b.build::<PC>(), pw));
    }
    {   // hashing and exponentiation
        let mut b = CircuitBuilder::<F, D>::new(cfg.clone());
        let ins = b.add_virtual_targets(5);
        let h = b.hash_n_to_hash_no_pad::<PoseidonHash>(ins.clone());
        b.register_public_inputs(&h.elements);
        let e = b.exp_u64(ins[0], 13); b.register_public_input(e);
        let bits = b.split_le(ins[1], 6); let e2 = b.exp_from_bits(ins[2], bits.iter()); b.register_public_input(e2);
        let mut pw = PartialWitness::new();
        for (k, &t) in ins.iter().enumerate() { pw.set_target(t, F::from_canonical_u64(5 + 7 * k as u64)).unwrap(); }
        out.push(("poseidon/exponentiation", b.build::<PC>(), pw));
    }
    {   // two lookup tables and a random access
        let mut b = CircuitBuilder::<F, D>::new(cfg.clone());
        let t0: Vec<(u16, u16)> = (0..16u16).map(|i| (i, 2 * i + 1)).collect();
        let t1: Vec<(u16, u16)> = (0..20u16).map(|i| (i, 3 * i + 100)).collect();
        let i0 = b.add_lookup_table_from_pairs(Arc::new(t0)); let i1 = b.add_lookup_table_from_pairs(Arc::new(t1));
        let a = b.add_virtual_target(); let c = b.add_virtual_target();
        b.register_public_input(a);
        let o0 = b.add_lookup_from_index(a, i0); let o1 = b.add_lookup_from_index(c, i1); let o2 = b.add_lookup_from_index(a, i1);
        let s = b.add(o0, o1); let s2 = b.add(s, o2); b.register_public_input(s2);
        let v: Vec<_> = (0..4).map(|k| b.constant(F::from_canonical_u64(10 + k))).collect();
        let idx = b.add_virtual_target(); let ra = b.random_access(idx, v); b.register_public_input(ra);
        let mut pw = PartialWitness::new();
        pw.set_target(a, F::from_canonical_u64(5)).unwrap(); pw.set_target(c, F::from_canonical_u64(7)).unwrap(); pw.set_target(idx, F::from_canonical_u64(2)).unwrap();
        out.push(("lookups/random access", b.build::<PC>(), pw));
    }
    out
}

#[test]
fn c02_witness_corruption() {
    use crate::iop::target::Target;
    let mut bad = Vec::new();
    let mut cases = 0usize;
    let mut skipped = 0usize;
    // the standard configuration and one whose number of routed wires (37) is not a multiple of the quotient degree factor (8): the last chunk of
    // the permutation product is then a partial one
    let mut narrow = CircuitConfig::standard_recursion_config(); narrow.num_routed_wires = 37;
    let mut all = Vec::new();
    for (ctag, cfg) in [("std", CircuitConfig::standard_recursion_config()), ("37 routed wires", narrow)] { for (t, d, w) in c02_circuits(&cfg) { if ctag != "std" && t.starts_with("poseidon") { continue; } all.push((format!("{t} [{ctag}]"), d, w)); } }
    for (tag, data, pw) in all {
        let tag = tag.as_str();
        let Some(base) = Adv::new(&data, pw) else { bad.push(format!("{tag}: honest witness generation failed")); continue; };
        cases += 1;
        // the oracle reads the constants / selector layout of the built circuit; if it cannot even confirm the honest assignment (e.g. after an
        // internal layout change) it is not usable and this circuit is skipped rather than reported
        if base.violates() { println!("c02_witness_corruption {tag}: oracle not applicable to this tree (honest assignment not confirmed); skipped"); continue; }
        let o = base.outcome();
        if o != "ACCEPTED" { bad.push(format!("{tag}: honest assignment -> {o}")); continue; }
        let n = data.common.degree();
        let nw = data.common.config.num_wires;
        let nr = data.common.config.num_routed_wires;
        // cells: every row; a spread of routed and advice columns
        let cols: Vec<usize> = vec![0, 1, 2, 3, 5, 7, 12, 30, 32, 36, 63, nr - 1, nr, nr + 1, nw - 1];
        let mut budget = 0usize;
        for r in 0..n {
            for &c in &cols {
                if c >= nw { continue; }
                let t = Target::wire(r, c);
                for (mode, delta) in [(0u8, F::ONE), (1u8, F::ONE), (0u8, F::from_canonical_u64(0xFFFF_FFFF_0000_0000))] {
                    // limit the work: all rows for the first columns, a thinner sample afterwards
                    if c > 3 && (r * 7 + c) % 5 != 0 { continue; }
                    let mut a = Adv { data: &data, values: base.values.clone(), map: base.map.clone() };
                    let v = a.get(t) + delta;
                    if mode == 0 { a.set_cell(t, v); } else { a.set_class(t, v); }
                    if !a.violates() { skipped += 1; continue; }
                    cases += 1; budget += 1;
                    let o = a.outcome();
                    if o == "ACCEPTED" || o == "verifier PANICKED" { bad.push(format!("{tag}: wire (row {r}, column {c}) {} by +{}: violating assignment -> {o}", if mode == 0 { "cell changed" } else { "copy class changed" }, delta.to_canonical_u64())); }
                    // degenerate prover strategies on a sample of the violating assignments
                    // (all-zero accumulators make every permutation term vanish, so the interesting victims are the assignments that violate ONLY copy constraints)
                    if a.violation_kind() == 1 || budget <= 3 || (r * 3 + c) % 29 == 0 {
                        for (sname, o) in a.outcomes_adversarial() { cases += 1;
                            if o == "ACCEPTED" || o == "verifier PANICKED" { bad.push(format!("{tag}: wire (row {r}, column {c}) {} by +{}: violating assignment, prover strategy `{sname}` -> {o}", if mode == 0 { "cell changed" } else { "copy class changed" }, delta.to_canonical_u64())); } }
                    }
                }
            }
        }
        // public inputs and the other virtual targets
        let nvirt = data.prover_only.representative_map.len() - n * nw;
        for k in 0..nvirt.min(40) {
            let t = Target::VirtualTarget { index: k };
            for mode in 0..2u8 {
                let mut a = Adv { data: &data, values: base.values.clone(), map: base.map.clone() };
                let v = a.get(t) + F::ONE;
                if mode == 0 { a.set_cell(t, v); } else { a.set_class(t, v); }
                if !a.violates() { skipped += 1; continue; }
                cases += 1;
                let o = a.outcome();
                if o == "ACCEPTED" || o == "verifier PANICKED" { bad.push(format!("{tag}: virtual target {k} {}: violating assignment -> {o}", if mode == 0 { "cell changed" } else { "copy class changed" })); }
            }
        }
        println!("c02_witness_corruption {tag}: degree {n}, {budget} violating wire corruptions tried, {skipped} non-violating skipped so far");
    }
    finish("c02_witness_corruption", cases, bad);
}

// C02: the range / bit-decomposition gadgets mean what they say: values inside the range are provable, the first values outside are not
#[test]
fn c02_range_gadgets() {
    let mut bad = Vec::new();
    let mut cases = 0usize;
    let p: u64 = 0xFFFF_FFFF_0000_0001;
    for n in [1usize, 2, 8, 31, 32, 33, 62, 63] {
        for kind in 0..3 {
            // kind 0: range_check(x, n); 1: split_le(x, n) (bits are public inputs); 2: low_bits(x, n, 64) is exempt from the range (only the low bits are taken)
            let mut b = CircuitBuilder::<F, D>::new(CircuitConfig::standard_recursion_config());
            let x = b.add_virtual_target();
            b.register_public_input(x);
            match kind { 0 => b.range_check(x, n), 1 => { let bits = b.split_le(x, n); for bt in bits { b.register_public_input(bt.target); } } _ => { if n > 32 { continue; } let lo = b.low_bits(x, n, 64); for bt in lo { b.register_public_input(bt.target); } } }
            let data = b.build::<PC>();
            let top: u128 = 1u128 << n;
            let mut vals: Vec<(u64, bool)> = vec![(0, true), (1, true), ((top - 1) as u64, true)];
            if kind != 2 { for v in [top, top + 5, top << 1, 1u128 << 40, 1u128 << 63, (p - 1) as u128] { if v >= top && v < p as u128 { vals.push((v as u64, false)); } } }
            else { vals.push((top as u64, true)); vals.push((p - 1, true)); }
            for (v, ok) in vals {
                cases += 1;
                let r = catch_unwind(AssertUnwindSafe(|| -> anyhow::Result<Vec<F>> { let mut pw = PartialWitness::new(); pw.set_target(x, F::from_canonical_u64(v))?; let pr = data.prove(pw)?; let pis = pr.public_inputs.clone(); data.verify(pr)?; Ok(pis) }));
                let accepted = matches!(r, Ok(Ok(_)));
                let what = ["range_check", "split_le", "low_bits"][kind];
                if accepted != ok { bad.push(format!("{what}(x, {n}) with x = {v:#x}: {}", if accepted { "a proof was produced and ACCEPTED although x >= 2^n" } else { "not provable although x is in range" })); }
                if let (Ok(Ok(pis)), true) = (&r, kind >= 1) { for (k, bit) in pis[1..].iter().enumerate() { if bit.to_canonical_u64() != (v >> k) & 1 { bad.push(format!("{what}(x, {n}) with x = {v:#x}: bit {k} is {}", bit.to_canonical_u64())); break; } } }
            }
        }
    }
    finish("c02_range_gadgets", cases, bad);
}

// a generator that does nothing (stands in for a generator a malicious prover has removed)
#[derive(Debug)]
struct IdleGen;
impl<F2: RichField + Extendable<D2>, const D2: usize> crate::iop::generator::WitnessGenerator<F2, D2> for IdleGen {
    fn id(&self) -> String { "IdleGen".to_string() }
    fn watch_list(&self) -> Vec<crate::iop::target::Target> { vec![] }
    fn run(&self, _w: &crate::iop::witness::PartitionWitness<F2>, _o: &mut crate::iop::generator::GeneratedValues<F2>) -> bool { true }
    fn serialize(&self, _d: &mut Vec<u8>, _c: &crate::plonk::circuit_data::CommonCircuitData<F2, D2>) -> crate::util::serialization::IoResult<()> { Ok(()) }
    fn deserialize(_s: &mut crate::util::serialization::Buffer, _c: &crate::plonk::circuit_data::CommonCircuitData<F2, D2>) -> crate::util::serialization::IoResult<Self> { Ok(IdleGen) }
}

// C08: lookups are provable exactly for pairs of the designated table
#[test]
fn c08_lookups() {
    use std::sync::Arc;
    let mut bad = Vec::new();
    let mut cases = 0usize;
    // (table sizes, lookups per table); LookupGate holds 40 lookups and LookupTableGate 26 entries per row in the standard configuration
    // key scheme 0: key i*(t+2)+t; 1: the keys 0..len with key 0 first, key len-1 last and the inner ones shuffled; 2: key 0 first, key len-1 last, arbitrary
    // large keys in between; 3: the identity 0..len (what add_lookup_table_from_fn produces)
    let plans: Vec<(Vec<usize>, Vec<usize>, usize)> = vec![
        (vec![1], vec![1], 0), (vec![2], vec![3], 0), (vec![26], vec![40], 0), (vec![27], vec![41], 0), (vec![53], vec![80], 0), (vec![16], vec![39], 0),
        (vec![16, 20], vec![1, 1], 0), (vec![16, 20], vec![40, 3], 0), (vec![5, 26, 30], vec![2, 80, 1], 0), (vec![52, 3], vec![7, 120], 0), (vec![16, 16], vec![5, 5], 0),
        (vec![4], vec![3], 1), (vec![30], vec![45], 1), (vec![6], vec![5], 2), (vec![28, 5], vec![9, 4], 2), (vec![8], vec![8], 3), (vec![52], vec![60], 3), (vec![78], vec![30], 0),
    ];
    for (pi, (sizes, nlook, scheme)) in plans.iter().enumerate() {
        let tag = format!("tables of sizes {sizes:?} (key scheme {scheme}) with {nlook:?} lookups");
        // value with duplicates, 16-bit
        let mut tables: Vec<Vec<(u16, u16)>> = sizes.iter().enumerate().map(|(t, &sz)| (0..sz).map(|i| {
            let key = match *scheme { 0 => i * (t + 2) + t, 3 => i, 1 => if i == 0 || i == sz - 1 { i } else { 1 + (i * 7 + 2) % (sz - 2).max(1) }, _ => if i == 0 || i == sz - 1 { i } else { 900 + 13 * i + t } };
            (key as u16, (((i * 37 + 11 * t + pi) % 23) as u16) * 1000 + t as u16) }).collect()).collect();
        // scheme 1 must be a permutation of 0..len: repair collisions of the inner shuffle
        if *scheme == 1 { for tb in tables.iter_mut() { let sz = tb.len(); let mut used = vec![false; sz]; for i in 0..sz { let mut k = tb[i].0 as usize; if i != 0 && i != sz - 1 { while k == 0 || k >= sz - 1 || used[k] { k = 1 + k % (sz - 2).max(1); if !used[k] && k != 0 && k < sz - 1 { break; } k += 1; } } used[k.min(sz - 1)] = true; tb[i].0 = k as u16; } } }
        // tables are arbitrary lists of pairs: for a third of the plans the entries are not in increasing key order
        if *scheme == 0 && pi % 3 != 0 { for tb in tables.iter_mut() { let n = tb.len(); for i in 0..n { let j = (i * 7 + 3) % n; tb.swap(i, j); } if n > 2 { tb.reverse(); tb.swap(0, n / 2); } } }
        let built = catch_unwind(AssertUnwindSafe(|| {
            let mut b = CircuitBuilder::<F, D>::new(CircuitConfig::standard_recursion_config());
            let idxs: Vec<usize> = tables.iter().map(|t| b.add_lookup_table_from_pairs(Arc::new(t.clone()))).collect();
            let mut ins = Vec::new(); let mut outs = Vec::new();
            for (t, &nl) in nlook.iter().enumerate() { for j in 0..nl {
                let x = b.add_virtual_target(); let o = b.add_lookup_from_index(x, idxs[t]);   // NOT a public input: nothing but the lookup argument may depend on the looked-up pair
                // heavy repetition for odd plans, spread otherwise; the last entries of large tables stay unused
                let e = if pi % 2 == 1 { (j / 9) % sizes[t] } else { (j * 5 + 1) % sizes[t] };
                ins.push((x, t, e)); outs.push(o);
            } }
            (b.build::<PC>(), ins, outs)
        }));
        let Ok((data, ins, outs)) = built else { bad.push(format!("{tag}: building the circuit PANICKED")); continue; };
        let mut pw = PartialWitness::new();
        for &(x, t, e) in &ins { pw.set_target(x, F::from_canonical_u64(tables[t][e].0 as u64)).unwrap(); }
        cases += 1;
        let Some(base) = Adv::new(&data, pw) else { bad.push(format!("{tag}: witness generation for member inputs failed")); continue; };
        for (k, &(_, t, e)) in ins.iter().enumerate() { if base.get(outs[k]) != F::from_canonical_u64(tables[t][e].1 as u64) { bad.push(format!("{tag}: lookup {k} outputs {} instead of the table value {}", base.get(outs[k]), tables[t][e].1)); break; } }
        let o = base.outcome();
        if o != "ACCEPTED" { bad.push(format!("{tag}: all lookups are table entries -> {o}")); continue; }
        // corrupt one looked-up pair at a time (first, middle, last lookup of every table; output and input side)
        let mut start = 0usize;
        for (t, &nl) in nlook.iter().enumerate() {
            for j in [0usize, nl / 2, nl - 1] {
                let k = start + j;
                let (x, _, e) = ins[k];
                let (key, val) = tables[t][e];
                // output candidates: off by one, the value another table gives for the same key, a value the same table gives for another key
                let mut wrong_outs: Vec<u64> = vec![val as u64 + 1];
                for (t2, tb) in tables.iter().enumerate() { if t2 != t { if let Some(p) = tb.iter().find(|p| p.0 == key) { wrong_outs.push(p.1 as u64); } } }
                if let Some(p) = tables[t].iter().find(|p| p.1 != val) { wrong_outs.push(p.1 as u64); }
                for w in wrong_outs {
                    if tables[t].iter().any(|p| p.0 == key && p.1 as u64 == w) { continue; }
                    let mut a = Adv { data: &data, values: base.values.clone(), map: base.map.clone() };
                    a.set_class(outs[k], F::from_canonical_u64(w));
                    cases += 1;
                    let o = a.outcome();
                    if o == "ACCEPTED" || o == "verifier PANICKED" { bad.push(format!("{tag}: lookup {j} of table {t}: pair ({key}, {w}) is not in the table -> {o}")); }
                    for (how, o2) in a.outcomes_lookup_adversarial() { cases += 1; if o2 == "ACCEPTED" || o2 == "verifier PANICKED" { bad.push(format!("{tag}: lookup {j} of table {t}: pair ({key}, {w}) is not in the table, prover strategy: {how} -> {o2}")); } }
                }
                // input side: a key of another table / a non-key, output unchanged
                let mut wrong_ins: Vec<u64> = vec![60000];
                for (t2, tb) in tables.iter().enumerate() { if t2 != t { if let Some(p) = tb.iter().find(|p| !tables[t].iter().any(|q| q.0 == p.0)) { wrong_ins.push(p.0 as u64); } } }
                if let Some(p) = tables[t].iter().find(|p| p.1 != val) { wrong_ins.push(p.0 as u64); }
                for w in wrong_ins {
                    if tables[t].iter().any(|p| p.0 as u64 == w && p.1 == val) { continue; }
                    let mut a = Adv { data: &data, values: base.values.clone(), map: base.map.clone() };
                    a.set_class(x, F::from_canonical_u64(w));
                    cases += 1;
                    let o = a.outcome();
                    if o == "ACCEPTED" || o == "verifier PANICKED" { bad.push(format!("{tag}: lookup {j} of table {t}: pair ({w}, {val}) is not in the table -> {o}")); }
                    for (how, o2) in a.outcomes_lookup_adversarial() { cases += 1; if o2 == "ACCEPTED" || o2 == "verifier PANICKED" { bad.push(format!("{tag}: lookup {j} of table {t}: pair ({w}, {val}) is not in the table, prover strategy: {how} -> {o2}")); } }
                }
            }
            // the declared table itself is binding: rewriting a table row in the trace (entry (key, v) -> (key, v')) together with a lookup of
            // that key that now returns v' must not be accepted, for EVERY table (first, middle, last one alike)
            {
                let lw = data.prover_only.lookup_rows[t].clone();
                let k = start;
                let (_, _, e) = ins[k];
                let (key, val) = tables[t][e];
                let (row, slot) = (lw.first_lut_gate - e / 26, e % 26);
                let tw_in = crate::iop::target::Target::wire(row, 3 * slot);
                let tw_out = crate::iop::target::Target::wire(row, 3 * slot + 1);
                if base.get(tw_in) == F::from_canonical_u64(key as u64) && base.get(tw_out) == F::from_canonical_u64(val as u64) {
                    let w = F::from_canonical_u64(val as u64 + 7);
                    let mut a = Adv { data: &data, values: base.values.clone(), map: base.map.clone() };
                    a.set_class(tw_out, w);
                    // every lookup of that key into this table returns the rewritten value
                    for (kk, &(_, t2, e2)) in ins.iter().enumerate() { if t2 == t && tables[t][e2].0 == key { a.set_class(outs[kk], w); } }
                    cases += 1;
                    let o = a.outcome();
                    if o == "ACCEPTED" || o == "verifier PANICKED" { bad.push(format!("{tag}: table {t}: row of entry ({key}, {val}) rewritten to ({key}, {}) in the trace and looked up -> {o}", val as u64 + 7)); }
                    for (how, o2) in a.outcomes_lookup_adversarial() { cases += 1; if o2 == "ACCEPTED" || o2 == "verifier PANICKED" { bad.push(format!("{tag}: table {t}: row of entry ({key}, {val}) rewritten to ({key}, {}) in the trace and looked up, prover strategy: {how} -> {o2}", val as u64 + 7)); } }
                }
            }
            start += nl;
        }
    }
    // tables declared by (inputs, outputs) columns in arbitrary order and by a function; configurations with other wire counts (42 lookup slots = 6 x 7)
    for (ctag, routed, wires) in [("standard", 80usize, 135usize), ("84 routed wires", 84, 140), ("70 routed wires", 70, 135)] {
        let mut cfg = CircuitConfig::standard_recursion_config(); cfg.num_routed_wires = routed; cfg.num_wires = wires;
        let inps: Vec<u16> = vec![40, 3, 17, 0, 999, 5, 12];
        let outs: Vec<u16> = vec![1, 2, 3, 4, 5, 6, 7];
        cases += 1;
        let r = catch_unwind(AssertUnwindSafe(|| -> anyhow::Result<Vec<F>> {
            let mut b = CircuitBuilder::<F, D>::new(cfg.clone());
            let t1 = b.add_lookup_table_from_table(&inps, &outs);
            let t2 = b.add_lookup_table_from_fn(|x| x.wrapping_mul(3) ^ 5, &[9, 2, 30, 4]);
            let mut xs = Vec::new();
            for k in 0..50usize { let x = b.add_virtual_target(); let o = b.add_lookup_from_index(x, if k % 3 == 2 { t2 } else { t1 }); b.register_public_input(o); xs.push(x); }
            let data = b.build::<PC>();
            let mut pw = PartialWitness::new();
            for (k, &x) in xs.iter().enumerate() { let v = if k % 3 == 2 { [9u16, 2, 30, 4][k % 4] } else { inps[k % inps.len()] }; pw.set_target(x, F::from_canonical_u64(v as u64))?; }
            let p = data.prove(pw)?; let pis = p.public_inputs.clone(); data.verify(p)?; Ok(pis)
        }));
        match r {
            Ok(Ok(pis)) => { for k in 0..50usize { let want = if k % 3 == 2 { let v = [9u16, 2, 30, 4][k % 4]; (v.wrapping_mul(3) ^ 5) as u64 } else { outs[k % inps.len()] as u64 };
                if pis[k].to_canonical_u64() != want { bad.push(format!("{ctag}: lookup {k} into a table declared by columns / by a function outputs {} instead of {want}", pis[k].to_canonical_u64())); break; } } }
            Ok(Err(e)) => bad.push(format!("{ctag}: honest circuit over tables declared by columns / by a function not provable / accepted: {e}")),
            Err(_) => bad.push(format!("{ctag}: honest circuit over tables declared by columns / by a function PANICKED")),
        }
    }
    // the same target looked up in two tables gets each table's own value
    {
        let mut b = CircuitBuilder::<F, D>::new(CircuitConfig::standard_recursion_config());
        let ta: Vec<(u16, u16)> = (0..8u16).map(|i| (i, 100 + i)).collect();
        let tb: Vec<(u16, u16)> = (0..8u16).map(|i| (i, 500 + 2 * i)).collect();
        let ia = b.add_lookup_table_from_pairs(Arc::new(ta)); let ib = b.add_lookup_table_from_pairs(Arc::new(tb));
        let x = b.add_virtual_target();
        let oa = b.add_lookup_from_index(x, ia); let ob = b.add_lookup_from_index(x, ib); let oa2 = b.add_lookup_from_index(x, ia);
        b.register_public_input(oa); b.register_public_input(ob); b.register_public_input(oa2);
        let data = b.build::<PC>();
        let mut pw = PartialWitness::new(); pw.set_target(x, F::from_canonical_u64(5)).unwrap();
        cases += 1;
        match catch_unwind(AssertUnwindSafe(|| data.prove(pw))) {
            Ok(Ok(p)) => { if p.public_inputs != vec![F::from_canonical_u64(105), F::from_canonical_u64(510), F::from_canonical_u64(105)] { bad.push(format!("one target looked up in tables A, B, A yields {:?} instead of [105, 510, 105]", p.public_inputs)); } else if data.verify(p).is_err() { bad.push("one target looked up in two tables: proof rejected".into()); } }
            _ => bad.push("one target looked up in two tables: not provable".into()),
        }
    }
    // a prover that fills the lookup rows itself and puts the multiplicity on an UNUSED slot of a partially filled table row:
    // whatever pair that slot holds must be an entry of the table, or the proof must not be accepted
    for size in [1usize, 2, 3, 27, 30, 53] {
        for variant in 0..2 {
            // variant 0: keys start at 1 (so (0,0) is not an entry); variant 1: keys start at 0
            let table: Vec<(u16, u16)> = (0..size).map(|i| ((i + 1 - variant) as u16, (10 * (i + 1)) as u16)).collect();
            let tag = format!("table {:?}.. of size {size}, multiplicity on an unused slot", &table[..size.min(2)]);
            let mut b = CircuitBuilder::<F, D>::new(CircuitConfig::standard_recursion_config());
            let ti = b.add_lookup_table_from_pairs(Arc::new(table.clone()));
            let x = b.add_virtual_target(); let o = b.add_lookup_from_index(x, ti);
            b.register_public_input(x); b.register_public_input(o);
            let mut data = b.build::<PC>();
            let lw = data.prover_only.lookup_rows[0].clone();
            let s_unused = size % 26;
            // pass 1 (honest generators): read what the unused slot holds
            let mut pw = PartialWitness::new(); pw.set_target(x, F::from_canonical_u64(table[0].0 as u64)).unwrap();
            let (pr, po) = { let Some(base) = Adv::new(&data, pw) else { bad.push(format!("{tag}: witness generation failed")); continue; };
                (base.wire(lw.last_lut_gate, 3 * s_unused), base.wire(lw.last_lut_gate, 3 * s_unused + 1)) };
            let member = table.iter().any(|p| F::from_canonical_u64(p.0 as u64) == pr && F::from_canonical_u64(p.1 as u64) == po);
            if member { continue; }   // the slot holds a table entry: looking it up is legitimate
            // pass 2: the lookup generator is replaced by an idle one, the prover does the bookkeeping by hand
            for g in data.prover_only.generators.iter_mut() { if g.0.id() == "LookupGenerator" { *g = crate::iop::generator::WitnessGeneratorRef::new(IdleGen); } }
            for l in data.prover_only.lut_to_lookups.iter_mut() { l.clear(); }
            let mut pw = PartialWitness::new();
            let mut nslots = 0u64;
            let mut ok = true;
            for r in lw.last_lu_gate..lw.last_lut_gate { for j in 0..40 {
                ok &= pw.set_target(crate::iop::target::Target::wire(r, 2 * j), pr).is_ok(); ok &= pw.set_target(crate::iop::target::Target::wire(r, 2 * j + 1), po).is_ok(); nslots += 1; } }
            ok &= pw.set_target(crate::iop::target::Target::wire(lw.last_lut_gate, 3 * s_unused + 2), F::from_canonical_u64(nslots)).is_ok();
            if !ok { continue; }
            cases += 1;
            let oc = match catch_unwind(AssertUnwindSafe(|| data.prove(pw))) {
                Ok(Ok(p)) => match catch_unwind(AssertUnwindSafe(|| data.verify(p))) { Ok(Ok(())) => "ACCEPTED", Ok(Err(_)) => "rejected", Err(_) => "verifier PANICKED" },
                Ok(Err(_)) => "prover error", Err(_) => "prover panicked" };
            if oc == "ACCEPTED" || oc == "verifier PANICKED" { bad.push(format!("{tag}: looked-up pair ({pr}, {po}) is not in the table -> {oc}")); }
        }
    }
    finish("c08_lookups", cases, bad);
}

// C07: gate types are told apart by their id (registration, selectors and serialisation are id-based), and the native and in-circuit evaluation of ALL
// gate constraints of a circuit agree on random openings, also for circuits with lookup tables
#[test]
fn c07_gate_ids_and_circuit_evaluation() {
    use crate::gates::base_sum::BaseSumGate;
    use crate::gates::gate::Gate;
    use crate::gates::random_access::RandomAccessGate;
    use crate::gates::exponentiation::ExponentiationGate;
    use crate::gates::reducing::ReducingGate;
    use crate::gates::reducing_extension::ReducingExtensionGate;
    use crate::gates::constant::ConstantGate;
    use crate::gates::arithmetic_base::ArithmeticGate;
    use crate::gates::coset_interpolation::CosetInterpolationGate;
    use crate::field::types::Sample;
    use crate::iop::generator::generate_partial_witness;
    use crate::iop::witness::Witness;
    use crate::plonk::vanishing_poly::{evaluate_gate_constraints, evaluate_gate_constraints_circuit};
    use crate::plonk::vars::{EvaluationTargets, EvaluationVars};
    use std::sync::Arc;
    let mut bad = Vec::new();
    let mut cases = 0usize;
    let cfg = CircuitConfig::standard_recursion_config();
    let ids: Vec<(String, String)> = vec![
        ("BaseSumGate<2>(8)".into(), <BaseSumGate<2> as Gate<F, D>>::id(&BaseSumGate::<2>::new(8))), ("BaseSumGate<4>(8)".into(), <BaseSumGate<4> as Gate<F, D>>::id(&BaseSumGate::<4>::new(8))),
        ("BaseSumGate<3>(8)".into(), <BaseSumGate<3> as Gate<F, D>>::id(&BaseSumGate::<3>::new(8))), ("BaseSumGate<2>(9)".into(), <BaseSumGate<2> as Gate<F, D>>::id(&BaseSumGate::<2>::new(9))),
        ("RandomAccessGate(2)".into(), RandomAccessGate::<F, D>::new_from_config(&cfg, 2).id()), ("RandomAccessGate(3)".into(), RandomAccessGate::<F, D>::new_from_config(&cfg, 3).id()),
        ("ExponentiationGate(5)".into(), ExponentiationGate::<F, D>::new(5).id()), ("ExponentiationGate(6)".into(), ExponentiationGate::<F, D>::new(6).id()),
        ("ReducingGate(5)".into(), <ReducingGate<D> as Gate<F, D>>::id(&ReducingGate::<D>::new(5))), ("ReducingExtensionGate(5)".into(), <ReducingExtensionGate<D> as Gate<F, D>>::id(&ReducingExtensionGate::<D>::new(5))),
        ("ReducingGate(6)".into(), <ReducingGate<D> as Gate<F, D>>::id(&ReducingGate::<D>::new(6))),
        ("ConstantGate(2)".into(), <ConstantGate as Gate<F, D>>::id(&ConstantGate::new(2))), ("ConstantGate(3)".into(), <ConstantGate as Gate<F, D>>::id(&ConstantGate::new(3))),
        ("ArithmeticGate(20)".into(), <ArithmeticGate as Gate<F, D>>::id(&ArithmeticGate { num_ops: 20 })), ("ArithmeticGate(9)".into(), <ArithmeticGate as Gate<F, D>>::id(&ArithmeticGate { num_ops: 9 })),
        ("CosetInterpolationGate(2)".into(), CosetInterpolationGate::<F, D>::new(2).id()), ("CosetInterpolationGate(3)".into(), CosetInterpolationGate::<F, D>::new(3).id()),
    ];
    for i in 0..ids.len() { for j in 0..i { cases += 1; if ids[i].1 == ids[j].1 { bad.push(format!("gate types {} and {} share the id {:?}", ids[j].0, ids[i].0, ids[i].1)); } } }
    // two parameterisations of one gate type in one circuit: both get their own rows and constraints
    {
        let mut b = CircuitBuilder::<F, D>::new(cfg.clone());
        let x = b.add_virtual_target(); let y = b.add_virtual_target();
        let lx = b.split_le_base::<2>(x, 8); let ly = b.split_le_base::<4>(y, 8);
        b.register_public_input(lx[3]); b.register_public_input(ly[3]);
        let data = b.build::<PC>();
        let mut pw = PartialWitness::new(); pw.set_target(x, F::from_canonical_u64(0xA5)).unwrap(); pw.set_target(y, F::from_canonical_u64(0xE4E4)).unwrap();
        cases += 1;
        match catch_unwind(AssertUnwindSafe(|| data.prove(pw))) { Ok(Ok(p)) => { if data.verify(p).is_err() { bad.push("circuit with base-2 and base-4 decompositions of 8 limbs: honest proof rejected".into()); } } _ => bad.push("circuit with base-2 and base-4 decompositions of 8 limbs: not provable".into()) }
    }
    // whole-circuit gate evaluation: native vs in-circuit on random openings, for circuits without and with 1 / 2 / 3 lookup tables
    for num_luts in 0..4usize {
        let mut b = CircuitBuilder::<F, D>::new(cfg.clone());
        let x = b.add_virtual_target(); b.register_public_input(x);
        let sq = b.mul(x, x); let h = b.hash_n_to_hash_no_pad::<PoseidonHash>(vec![x, sq]); b.register_public_inputs(&h.elements);
        let bits = b.split_le(x, 6); let e = b.exp_from_bits(sq, bits.iter()); b.register_public_input(e);
        for t in 0..num_luts { let table: Vec<(u16, u16)> = (0..16u16).map(|i| (i, (i * 3 + t as u16) % 40)).collect(); let ti = b.add_lookup_table_from_pairs(Arc::new(table)); let o = b.add_lookup_from_index(bits[0].target, ti); b.register_public_input(o); }
        let data = b.build::<PC>();
        let cd = &data.common;
        let consts = FE::rand_vec(cd.num_constants); let wires = FE::rand_vec(cd.config.num_wires); let pih = HashOut::<F>::rand();
        let native = evaluate_gate_constraints::<F, D>(cd, EvaluationVars { local_constants: &consts, local_wires: &wires, public_inputs_hash: &pih });
        cases += 1;
        let r = catch_unwind(AssertUnwindSafe(|| -> anyhow::Result<Vec<FE>> {
            let mut pw = PartialWitness::new();
            let mut b2 = CircuitBuilder::<F, D>::new(cfg.clone());
            let ct = b2.add_virtual_extension_targets(consts.len()); let wt = b2.add_virtual_extension_targets(wires.len()); let ht = b2.add_virtual_hash();
            pw.set_extension_targets(&ct, &consts)?; pw.set_extension_targets(&wt, &wires)?; pw.set_hash_target(ht, pih)?;
            let out = evaluate_gate_constraints_circuit::<F, D>(&mut b2, cd, EvaluationTargets { local_constants: &ct, local_wires: &wt, public_inputs_hash: &ht });
            let d2 = b2.build_prover::<PC>();
            let w = generate_partial_witness(pw, &d2.prover_only, &d2.common)?;
            Ok(out.iter().map(|&t| w.get_extension_target(t)).collect())
        }));
        match r { Ok(Ok(v)) => { if v != native { bad.push(format!("circuit with {num_luts} lookup tables: in-circuit evaluation of the gate constraints differs from the native one")); } }
                  Ok(Err(e)) => bad.push(format!("circuit with {num_luts} lookup tables: in-circuit evaluation of the gate constraints failed: {e}")),
                  Err(_) => bad.push(format!("circuit with {num_luts} lookup tables: in-circuit evaluation of the gate constraints PANICKED")) }
    }
    finish("c07_gate_ids_and_circuit_evaluation", cases, bad);
}

// C13: the linear layers of Poseidon against a u128 oracle, on magnitude classes and on states steered to the carry boundaries
#[test]
fn c13_linear_layers() {
    use crate::hash::poseidon::{Poseidon, N_PARTIAL_ROUNDS};
    let mut bad = Vec::new();
    let mut cases = 0usize;
    let p: u128 = 0xFFFF_FFFF_0000_0001;
    let val = |x: F| (x.0 as u128) % p;
    let mut s = 0x9E37_79B9_7F4A_7C15u64 ^ seed();
    let mut rnd = move || { s ^= s << 13; s ^= s >> 7; s ^= s << 17; s };
    let mds_oracle = |st: &[F; 12]| -> [u128; 12] { core::array::from_fn(|r| {
        let mut acc = 0u128;
        for i in 0..12 { acc = (acc + val(st[(i + r) % 12]) * (<F as Poseidon>::MDS_MATRIX_CIRC[i] as u128)) % p; }
        (acc + val(st[r]) * (<F as Poseidon>::MDS_MATRIX_DIAG[r] as u128)) % p }) };
    // mds_layer: every element in the same magnitude class [2^k, 2^(k+1)), top of the class, mixed classes, non-canonical representations
    let mut states: Vec<[F; 12]> = Vec::new();
    for k in 0..64u32 {
        let lo = 1u64 << k; let span = lo;   // [2^k, 2^(k+1))
        states.push(core::array::from_fn(|_| F::from_noncanonical_u64(lo + rnd() % span)));
        states.push(core::array::from_fn(|_| F::from_noncanonical_u64(lo + (span - 1))));
        states.push(core::array::from_fn(|j| F::from_noncanonical_u64(if j % 2 == 0 { lo + rnd() % span } else { rnd() % 8 })));
        states.push(core::array::from_fn(|j| F::from_noncanonical_u64(if j == (k as usize) % 12 { lo + (span - 1) } else { 0 })));
    }
    for _ in 0..200 { states.push(core::array::from_fn(|_| F::from_noncanonical_u64(rnd()))); }
    // steered states: the reduced row-0 product AND the reduced diagonal term 8*s0 are both non-canonical words just below 2^64, so that adding them wraps
    // twice (the corner of a diagonal term added without a full reduction).  Row 0 of the circulant is sum_i circ[i]*s_i; with s = [s0, s1, 0, ..] the
    // 96-bit product is reduced to lo + hi*(2^32 - 1); s1 is solved so that this word lands at a chosen distance below 2^64.
    {
        let eps: u128 = 0xFFFF_FFFF;
        let c0 = <F as Poseidon>::MDS_MATRIX_CIRC[0] as u128; let c1 = <F as Poseidon>::MDS_MATRIX_CIRC[1] as u128;
        for s0 in [(1u64 << 61) - 1, (1u64 << 61) - 2, (1u64 << 61) - 1000, 0x1FFF_FFFF_E000_0001u64] {
            for below in [1u128, 9, 100, 1 << 16, 1 << 31, (1 << 32) - 20] {
                let base = c0 * s0 as u128;
                'search: for dt in 0..c1 { for h in 0..64u128 {
                    let word = (1u128 << 64) - below - dt;            // target value of lo + hi*eps
                    if word < h * eps { continue; }
                    let p0 = (h << 64) + (word - h * eps);
                    if p0 < base || (p0 - base) % c1 != 0 { continue; }
                    let s1 = (p0 - base) / c1;
                    if s1 >= 1u128 << 64 { continue; }
                    let mut st = [F::ZERO; 12]; st[0] = F::from_noncanonical_u64(s0); st[1] = F::from_noncanonical_u64(s1 as u64);
                    states.push(st);
                    break 'search;
                } }
            }
        }
    }
    for st in &states {
        cases += 1;
        let got = catch_unwind(AssertUnwindSafe(|| F::mds_layer(st)));
        let want = mds_oracle(st);
        match got { Ok(g) => { if (0..12).any(|r| val(g[r]) != want[r]) { bad.push(format!("mds_layer wrong on state {:?}", st.iter().map(|x| x.0).collect::<Vec<_>>())); } }
                    Err(_) => bad.push(format!("mds_layer PANICKED on state {:?}", st.iter().map(|x| x.0).collect::<Vec<_>>())) }
    }
    // mds_partial_layer_fast for every partial round: d = M00*s0 + sum w_hat[i-1]*s_i, result[i] = s_i + s0*v[i-1]
    let m00 = (<F as Poseidon>::MDS_MATRIX_CIRC[0] + <F as Poseidon>::MDS_MATRIX_DIAG[0]) as u128;
    let part_oracle = |st: &[F; 12], r: usize| -> [u128; 12] { core::array::from_fn(|i| if i == 0 {
            let mut acc = val(st[0]) * m00 % p;
            for j in 1..12 { acc = (acc + val(st[j]) * ((<F as Poseidon>::FAST_PARTIAL_ROUND_W_HATS[r][j - 1] as u128) % p)) % p; }
            acc
        } else { (val(st[i]) + val(st[0]) * ((<F as Poseidon>::FAST_PARTIAL_ROUND_VS[r][i - 1] as u128) % p)) % p }) };
    for r in 0..N_PARTIAL_ROUNDS {
        let w = <F as Poseidon>::FAST_PARTIAL_ROUND_W_HATS[r];
        let mut sts: Vec<[F; 12]> = Vec::new();
        sts.push([F::from_noncanonical_u64(u64::MAX); 12]);
        sts.push(core::array::from_fn(|_| F::from_noncanonical_u64(rnd())));
        // steer the 160-bit accumulator: after the 11 w_hat terms its low 128 bits sit just below a multiple of 2^128, so that the LAST
        // addition (s0 * M00) carries into the high word; and variants where an earlier addition carries
        for last in [11usize, 10, 5, 1] {
            for _ in 0..6 {
                let mut st: [F; 12] = core::array::from_fn(|_| F::from_noncanonical_u64(rnd() | (1 << 63)));
                // sum of all terms that are added BEFORE term `last` completes, except term `last` itself
                let mut acc: u128 = 0;   // low 128 bits
                for j in 1..=last { if j != last { acc = acc.wrapping_add((st[j].0 as u128).wrapping_mul(w[j - 1] as u128)); } }
                let t = w[last - 1] as u128;
                if t == 0 { continue; }
                // choose s_last so that acc + s_last * t lands in (2^128 - t, 2^128 - 1] modulo 2^128
                let room = 0u128.wrapping_sub(acc).wrapping_sub(1);         // 2^128 - 1 - acc
                let q = room / t;
                if q == 0 || q > u64::MAX as u128 { continue; }
                st[last] = F::from_noncanonical_u64(q as u64);
                sts.push(st);
                // ... and with s0 chosen so that the complete 160-bit sum is K * 2^128 + delta with a TINY delta (0 <= delta < 100): the low 128 bits of the
                // accumulator are then smaller than anything derived from the high word, the corner where folding the high word into the low one can underflow
                if last == 11 {
                    let gap = 0u128.wrapping_sub(acc.wrapping_add(q.wrapping_mul(t)));   // 2^128 - (low 128 bits after the 11 w_hat terms), in [1, t]
                    for extra in 0..4u128 {
                        let s0 = gap.div_ceil(m00) + extra;
                        if s0 > u64::MAX as u128 { continue; }
                        let mut st2 = st; st2[0] = F::from_noncanonical_u64(s0 as u64);
                        sts.push(st2);
                    }
                }
            }
        }
        for st in &sts {
            cases += 1;
            let got = catch_unwind(AssertUnwindSafe(|| F::mds_partial_layer_fast(st, r)));
            let want = part_oracle(st, r);
            match got { Ok(g) => { if (0..12).any(|i| val(g[i]) != want[i]) { bad.push(format!("mds_partial_layer_fast(round {r}) wrong on state {:?}", st.iter().map(|x| x.0).collect::<Vec<_>>())); } }
                        Err(_) => bad.push(format!("mds_partial_layer_fast(round {r}) PANICKED on state {:?}", st.iter().map(|x| x.0).collect::<Vec<_>>())) }
        }
    }
    // s-box and constant layers on boundary representations
    let lat = [0u64, 1, 2, 0xFFFF_FFFF, 0x1_0000_0000, 0xFFFF_FFFF_0000_0000, 0xFFFF_FFFF_0000_0001, 0xFFFF_FFFF_0000_0002, u64::MAX, u64::MAX - 1, 1 << 63];
    for t in 0..60usize {
        let st0: [F; 12] = core::array::from_fn(|k| F::from_noncanonical_u64(if t < 30 { lat[(t + k) % lat.len()] } else { rnd() }));
        let mut st = st0; cases += 1;
        F::sbox_layer(&mut st);
        let pow7 = |x: u128| { let x2 = x * x % p; let x4 = x2 * x2 % p; x4 * x2 % p * x % p };
        if (0..12).any(|k| val(st[k]) != pow7(val(st0[k]))) { bad.push(format!("sbox_layer wrong on state {:?}", st0.iter().map(|x| x.0).collect::<Vec<_>>())); }
        for rc in [0usize, 3, 4, 29] {
            let mut st = st0; cases += 1;
            F::constant_layer(&mut st, rc);
            if (0..12).any(|k| val(st[k]) != (val(st0[k]) + (crate::hash::poseidon::ALL_ROUND_CONSTANTS[k + 12 * rc] as u128) % p) % p) { bad.push(format!("constant_layer(round {rc}) wrong on state {:?}", st0.iter().map(|x| x.0).collect::<Vec<_>>())); }
        }
    }
    finish("c13_linear_layers", cases, bad);
}

// C05: stand-alone FRI opening proofs over structured polynomials and opening plans (constant / zero / low-degree polynomials, several opening points,
// batches whose combined numerator vanishes identically): true openings are accepted, any false opening is rejected
#[test]
fn c05_fri_structured_openings() {
    use crate::field::polynomial::PolynomialCoeffs;
    use crate::field::types::Sample;
    use crate::fri::oracle::PolynomialBatch;
    use crate::fri::structure::{FriBatchInfo, FriInstanceInfo, FriOpeningBatch, FriOpenings, FriOracleInfo, FriPolynomialInfo};
    use crate::fri::{FriConfig, FriParams};
    use crate::iop::challenger::Challenger;
    use crate::util::timing::TimingTree;
    let mut bad = Vec::new();
    let mut cases = 0usize;
    for (degree_bits, arities, rate_bits) in [(5usize, vec![2usize, 1], 2usize), (4, vec![1, 1], 1), (6, vec![3], 3), (3, vec![], 1)] {
        let n = 1usize << degree_bits;
        let cst = |c: F| { let mut v = vec![F::ZERO; n]; v[0] = c; PolynomialCoeffs::new(v) };
        let lin = |a: F, b: F| { let mut v = vec![F::ZERO; n]; v[0] = a; v[1] = b; PolynomialCoeffs::new(v) };
        // polynomials of the single oracle: 0 random, 1 random, 2 constant, 3 constant one, 4 zero, 5 linear, 6 random
        let polys: Vec<PolynomialCoeffs<F>> = vec![PolynomialCoeffs::new(F::rand_vec(n)), PolynomialCoeffs::new(F::rand_vec(n)), cst(F::rand()), cst(F::ONE), cst(F::ZERO), lin(F::rand(), F::rand()), PolynomialCoeffs::new(F::rand_vec(n))];
        // opening plans: which polynomials are opened at which of the points (index into [zeta, eta, theta])
        let plans: Vec<(&str, Vec<(usize, Vec<usize>)>)> = vec![
            ("all at one point", vec![(0, vec![0, 1, 2, 3, 4, 5, 6])]),
            ("random at zeta, constants at eta", vec![(0, vec![0]), (1, vec![2, 3])]),
            ("constants first, random second", vec![(0, vec![2, 3]), (1, vec![0, 1])]),
            ("zero polynomial alone in the middle batch", vec![(0, vec![0, 5]), (1, vec![4]), (2, vec![1, 6])]),
            ("only constants and zero", vec![(0, vec![2]), (1, vec![3, 4])]),
            ("same polynomial at three points", vec![(0, vec![0, 2]), (1, vec![0, 2]), (2, vec![0, 4])]),
        ];
        for (pname, plan) in plans {
            let tag = format!("FRI 2^{degree_bits}, arities {arities:?}, rate_bits {rate_bits}, plan '{pname}'");
            let fri_params = FriParams { config: FriConfig { rate_bits, cap_height: 1, proof_of_work_bits: 2, reduction_strategy: FriReductionStrategy::Fixed(arities.clone()), num_query_rounds: 8 }, hiding: false, degree_bits, reduction_arity_bits: arities.clone() };
            let built = catch_unwind(AssertUnwindSafe(|| {
                let batch = PolynomialBatch::<F, PC, D>::from_coeffs(polys.clone(), rate_bits, false, 1, &mut TimingTree::default(), None);
                let mut challenger = Challenger::<F, PoseidonHash>::new();
                challenger.observe_cap(&batch.merkle_tree.cap);
                let points: Vec<FE> = (0..3).map(|_| challenger.get_extension_challenge::<D>()).collect();
                let instance = FriInstanceInfo::<F, D> { oracles: vec![FriOracleInfo { num_polys: polys.len(), blinding: false }],
                    batches: plan.iter().map(|(pt, idx)| FriBatchInfo { point: points[*pt], polynomials: idx.iter().map(|&i| FriPolynomialInfo { oracle_index: 0, polynomial_index: i }).collect() }).collect() };
                let openings = FriOpenings::<F, D> { batches: plan.iter().map(|(pt, idx)| FriOpeningBatch { values: idx.iter().map(|&i| polys[i].to_extension::<D>().eval(points[*pt])).collect() }).collect() };
                challenger.observe_openings(&openings);
                let mut vch = challenger.clone();
                let proof = PolynomialBatch::<F, PC, D>::prove_openings(&instance, &[&batch], &mut challenger, &fri_params, None, None, &mut TimingTree::default());
                let ch = vch.fri_challenges::<PC, D>(&proof.commit_phase_merkle_caps, &proof.final_poly, proof.pow_witness, degree_bits, &fri_params.config, None, None);
                (instance, openings, proof, ch, batch.merkle_tree.cap.clone())
            }));
            cases += 1;
            let Ok((instance, openings, proof, ch, cap)) = built else { bad.push(format!("{tag}: committing / proving PANICKED")); continue; };
            let verdict = |op: &FriOpenings<F, D>| -> &'static str { match catch_unwind(AssertUnwindSafe(|| verify_fri_proof::<F, PC, D>(&instance, op, &ch, &[cap.clone()], &proof, &fri_params))) { Ok(Ok(())) => "ACCEPTED", Ok(Err(_)) => "rejected", Err(_) => "PANICKED" } };
            let v = verdict(&openings);
            if v != "ACCEPTED" { bad.push(format!("{tag}: every claimed opening is the true evaluation -> {v}")); continue; }
            for b in 0..openings.batches.len() { for k in 0..openings.batches[b].values.len() {
                let mut op = FriOpenings::<F, D> { batches: openings.batches.iter().map(|x| FriOpeningBatch { values: x.values.clone() }).collect() };
                op.batches[b].values[k] += FE::ONE;
                cases += 1;
                let v = verdict(&op);
                if v != "rejected" { bad.push(format!("{tag}: false opening {k} of batch {b} -> {v}")); }
            } }
        }
    }
    finish("c05_fri_structured_openings", cases, bad);
}

// C05 (batched FRI): an arity schedule that SKIPS the evaluation-domain size of one instance (2^10 -> 2^9 -> 2^7: the 2^8 domain of a degree-2^7 instance
// never occurs).  A forger commits to f1 = c X^2 + b, claims f1(zeta) = b + c g zeta (false) and hands the prover's own commit phase the constant c g as
// "quotient" of that instance; if the verifier folded the instance into a layer of the wrong size, (f1(x) - claim) / (x' - zeta) would equal c g at every
// query.  No false opening may be accepted (a panic of the verifier counts as a refusal here, C18 does not cover this internal API).
// Scenario contributed by a seeding sub-agent (seeded/C05_cand7), kept as a regression case for the class "instance folded in at the wrong layer".
#[test]
fn c05_batch_skipped_layer() {
    use crate::batch_fri::oracle::BatchFriOracle;
    use crate::batch_fri::prover::batch_fri_proof;
    use crate::batch_fri::verifier::verify_batch_fri_proof;
    use crate::field::polynomial::{PolynomialCoeffs, PolynomialValues};
    use crate::field::types::Sample;
    use crate::fri::structure::{FriBatchInfo, FriInstanceInfo, FriOpeningBatch, FriOpenings, FriOracleInfo, FriPolynomialInfo};
    use crate::fri::{FriConfig, FriParams};
    use crate::iop::challenger::Challenger;
    use crate::util::timing::TimingTree;
    let mut bad = Vec::new();
    let mut cases = 0usize;
    for trial in 0..3u64 {
        let (k0, k1) = (9usize, 7usize);
        let arities = vec![1usize, 2, 1];
        let fri_params = FriParams { config: FriConfig { rate_bits: 1, cap_height: 2, proof_of_work_bits: 0, reduction_strategy: FriReductionStrategy::Fixed(arities.clone()), num_query_rounds: 12 }, hiding: false, degree_bits: k0, reduction_arity_bits: arities };
        let r = catch_unwind(AssertUnwindSafe(|| -> Option<bool> {
            let mut timing = TimingTree::default();
            let f0 = PolynomialCoeffs::new(F::rand_vec(1 << k0));
            let (b, c) = (F::rand(), F::rand() + F::from_canonical_u64(trial + 1));
            if c.is_zero() { return None; }
            let mut f1c = vec![F::ZERO; 1 << k1]; f1c[0] = b; f1c[2] = c;
            let f1 = PolynomialCoeffs::new(f1c);
            let oracle: BatchFriOracle<F, PC, D> = BatchFriOracle::from_coeffs(vec![f0.clone(), f1.clone()], 1, false, 2, &mut timing, &[None; 2]);
            let mut challenger = Challenger::<F, PoseidonHash>::new();
            challenger.observe_cap(&oracle.batch_merkle_tree.cap);
            let zeta = challenger.get_extension_challenge::<D>();
            let g = F::coset_shift();
            let y0 = f0.to_extension::<D>().eval(zeta);
            let y1 = f1.to_extension::<D>().eval(zeta);
            let rr: FE = (c * g).into();
            let bb: FE = b.into();
            let claimed = bb + rr * zeta;
            if claimed == y1 { return None; }
            challenger.observe_extension_element::<D>(&y0);
            challenger.observe_extension_element::<D>(&claimed);
            let mut vch = challenger.clone();
            let _alpha = challenger.get_extension_challenge::<D>();
            let mut quotient = f0.to_extension::<D>().divide_by_linear(zeta);
            quotient.coeffs.push(FE::ZERO);
            let lde0 = quotient.lde(1);
            let vals0 = lde0.coset_fft(F::coset_shift().into());
            let forged1 = PolynomialValues::new(vec![rr; 1 << k1]);
            let proof = batch_fri_proof::<F, PC, D>(&[&oracle.batch_merkle_tree], lde0, &[vals0, forged1], &mut challenger, &fri_params, &mut timing);
            let inst = |i: usize| FriInstanceInfo::<F, D> { oracles: vec![FriOracleInfo { num_polys: 1, blinding: false }], batches: vec![FriBatchInfo { point: zeta, polynomials: vec![FriPolynomialInfo { oracle_index: 0, polynomial_index: i }] }] };
            let instances = vec![inst(0), inst(1)];
            let openings = vec![FriOpenings { batches: vec![FriOpeningBatch { values: vec![y0] }] }, FriOpenings { batches: vec![FriOpeningBatch { values: vec![claimed] }] }];
            let ch = vch.fri_challenges::<PC, D>(&proof.commit_phase_merkle_caps, &proof.final_poly, proof.pow_witness, k0, &fri_params.config, None, None);
            let cap = oracle.batch_merkle_tree.cap.clone();
            let out = catch_unwind(AssertUnwindSafe(|| verify_batch_fri_proof::<F, PC, D>(&[k0, k1], &instances, &openings, &ch, &[cap], &proof, &fri_params)));
            Some(matches!(out, Ok(Ok(()))))
        }));
        match r {
            Ok(Some(accepted)) => { cases += 1; if accepted { bad.push(format!("batch FRI, degrees 2^9 and 2^7 under arities [1, 2, 1] (the 2^8 domain is skipped): FALSE opening of the second polynomial ACCEPTED (trial {trial})")); } }
            Ok(None) => {}
            Err(_) => { cases += 1; }   // the forger's own commit phase broke down: nothing was emitted
        }
    }
    // three instances; the smallest is never reached by the folded layers (2^10 -> 2^9 -> 2^7 -> 2^6 never hits 2^5).  A prover that folds in the first
    // `proved` instances only and claims openings[2] + delta must be accepted only when everything claimed is true and folded in
    let run3 = |ks: [usize; 3], proved: usize, delta: FE| -> Option<bool> {
        catch_unwind(AssertUnwindSafe(|| {
            let arities = vec![1usize, 2, 1];
            let fri_params = FriParams { config: FriConfig { rate_bits: 1, cap_height: 0, proof_of_work_bits: 0, reduction_strategy: FriReductionStrategy::Fixed(arities.clone()), num_query_rounds: 10 }, hiding: false, degree_bits: ks[0], reduction_arity_bits: arities };
            let mut timing = TimingTree::default();
            let traces: Vec<PolynomialValues<F>> = ks.iter().map(|&k| PolynomialValues::new(F::rand_vec(1 << k))).collect();
            let oracle: BatchFriOracle<F, PC, D> = BatchFriOracle::from_values(traces, 1, false, 0, &mut timing, &[None; 3]);
            let mut challenger = Challenger::<F, PoseidonHash>::new();
            challenger.observe_cap(&oracle.batch_merkle_tree.cap);
            let zeta = challenger.get_extension_challenge::<D>();
            let mut claimed: Vec<FE> = oracle.polynomials.iter().map(|p| p.to_extension::<D>().eval(zeta)).collect();
            claimed[2] += delta;
            challenger.observe_extension_elements::<D>(&claimed);
            let mut vch = challenger.clone();
            let _alpha = challenger.get_extension_challenge::<D>();
            let mut lde_coeffs = vec![]; let mut lde_values = vec![];
            for p in oracle.polynomials.iter().take(proved) {
                let mut q = p.to_extension::<D>().divide_by_linear(zeta); q.coeffs.push(FE::ZERO);
                let lde = q.lde(1); lde_values.push(lde.clone().coset_fft(F::coset_shift().into())); lde_coeffs.push(lde);
            }
            let proof = batch_fri_proof::<F, PC, D>(&[&oracle.batch_merkle_tree], lde_coeffs[0].clone(), &lde_values, &mut challenger, &fri_params, &mut timing);
            let instances: Vec<FriInstanceInfo<F, D>> = (0..3).map(|i| FriInstanceInfo { oracles: vec![FriOracleInfo { num_polys: 1, blinding: false }], batches: vec![FriBatchInfo { point: zeta, polynomials: vec![FriPolynomialInfo { oracle_index: 0, polynomial_index: i }] }] }).collect();
            let openings: Vec<FriOpenings<F, D>> = claimed.iter().map(|&v| FriOpenings { batches: vec![FriOpeningBatch { values: vec![v] }] }).collect();
            let ch = vch.fri_challenges::<PC, D>(&proof.commit_phase_merkle_caps, &proof.final_poly, proof.pow_witness, ks[0], &fri_params.config, None, None);
            let out = catch_unwind(AssertUnwindSafe(|| verify_batch_fri_proof::<F, PC, D>(&ks, &instances, &openings, &ch, &[oracle.batch_merkle_tree.cap.clone()], &proof, &fri_params)));
            matches!(out, Ok(Ok(())))
        })).ok()
    };
    cases += 1; if run3([9, 8, 6], 3, FE::ZERO) != Some(true) { bad.push("batch FRI, degrees 2^9, 2^8, 2^6 under arities [1, 2, 1]: honest openings of three instances NOT accepted".into()); }
    cases += 1; if run3([9, 8, 6], 3, FE::ONE) == Some(true) { bad.push("batch FRI, degrees 2^9, 2^8, 2^6 under arities [1, 2, 1]: false opening of the third instance ACCEPTED".into()); }
    for delta in [FE::ONE, FE::TWO] {
        cases += 1; if run3([9, 8, 4], 2, delta) == Some(true) { bad.push(format!("batch FRI, degrees 2^9, 2^8, 2^4 under arities [1, 2, 1] (the 2^5 domain is never reached): proof that folds in two instances only ACCEPTED for three (third opening false by {delta:?})")); }
    }
    finish("c05_batch_skipped_layer", cases.max(1), bad);
}

// C05 (batched FRI): several oracles, several degrees; every component of the opening proof is checked
#[test]
fn c05_batch_fri() {
    use crate::batch_fri::oracle::BatchFriOracle;
    use crate::batch_fri::verifier::verify_batch_fri_proof;
    use crate::field::polynomial::PolynomialValues;
    use crate::field::types::Sample;
    use crate::fri::structure::{FriBatchInfo, FriInstanceInfo, FriOpeningBatch, FriOpenings, FriOracleInfo, FriPolynomialInfo};
    use crate::fri::{FriConfig, FriParams};
    use crate::iop::challenger::Challenger;
    use crate::util::timing::TimingTree;
    let mut bad = Vec::new();
    let mut cases = 0usize;
    // (degrees of the polynomials of each oracle, arity schedule, queries): small domains with many queries make repeated query positions certain
    let plans: Vec<(Vec<usize>, Vec<usize>, usize, usize)> = vec![
        (vec![7, 6], vec![1, 1], 12, 2),          // two oracles
        (vec![5, 4, 3], vec![1, 1], 24, 2),       // tiny domain: repeated positions
        (vec![6, 4], vec![2, 1], 16, 1),          // one oracle, mixed arities (a polynomial must enter exactly at a folding boundary)
        (vec![6, 4], vec![1, 1, 1], 14, 3),       // three oracles
        (vec![4, 1], vec![2, 1], 12, 1),          // a two-coefficient polynomial entering at the last layer
        (vec![4, 2], vec![2, 1], 12, 2),
        (vec![3, 1], vec![1, 1], 10, 1),
    ];
    for (ks, arities, nq, n_oracles) in plans {
        let tag = format!("batch FRI degrees 2^{ks:?}, arities {arities:?}, {nq} queries, {n_oracles} oracles");
        let mut timing = TimingTree::default();
        let fri_params = FriParams { config: FriConfig { rate_bits: 1, cap_height: 1, proof_of_work_bits: 1, reduction_strategy: FriReductionStrategy::Fixed(arities.clone()), num_query_rounds: nq }, hiding: false, degree_bits: ks[0], reduction_arity_bits: arities.clone() };
        let built = catch_unwind(AssertUnwindSafe(|| {
            let oracles: Vec<BatchFriOracle<F, PC, D>> = (0..n_oracles).map(|_| BatchFriOracle::from_values(ks.iter().map(|&k| PolynomialValues::new(F::rand_vec(1 << k))).collect(), 1, false, 1, &mut TimingTree::default(), &vec![None; ks.len()])).collect();
            let mut challenger = Challenger::<F, PoseidonHash>::new();
            for o in &oracles { challenger.observe_cap(&o.batch_merkle_tree.cap); }
            let zeta = challenger.get_extension_challenge::<D>();
            let instances: Vec<FriInstanceInfo<F, D>> = (0..ks.len()).map(|i| FriInstanceInfo { oracles: (0..n_oracles).map(|_| FriOracleInfo { num_polys: 1, blinding: false }).collect(),
                batches: vec![FriBatchInfo { point: zeta, polynomials: (0..n_oracles).map(|o| FriPolynomialInfo { oracle_index: o, polynomial_index: i }).collect() }] }).collect();
            let openings: Vec<FriOpenings<F, D>> = (0..ks.len()).map(|i| FriOpenings { batches: vec![FriOpeningBatch { values: oracles.iter().map(|o| o.polynomials[i].to_extension::<D>().eval(zeta)).collect() }] }).collect();
            for o in &openings { challenger.observe_openings(o); }
            let mut vch = challenger.clone();
            let refs: Vec<&BatchFriOracle<F, PC, D>> = oracles.iter().collect();
            let proof = BatchFriOracle::prove_openings(&ks, &instances, &refs, &mut challenger, &fri_params, &mut TimingTree::default());
            let ch = vch.fri_challenges::<PC, D>(&proof.commit_phase_merkle_caps, &proof.final_poly, proof.pow_witness, ks[0], &fri_params.config, None, None);
            let caps: Vec<_> = oracles.iter().map(|o| o.batch_merkle_tree.cap.clone()).collect();
            (instances, openings, proof, ch, caps)
        }));
        let _ = &mut timing;
        let Ok((instances, openings, proof, ch, caps)) = built else { bad.push(format!("{tag}: building / proving PANICKED")); continue; };
        let verdict = |op: &Vec<FriOpenings<F, D>>, p: &crate::fri::proof::FriProof<F, PoseidonHash, D>| -> &'static str {
            match catch_unwind(AssertUnwindSafe(|| verify_batch_fri_proof::<F, PC, D>(&ks, &instances, op, &ch, &caps, p, &fri_params))) { Ok(Ok(())) => "ACCEPTED", Ok(Err(_)) => "rejected", Err(_) => "PANICKED" } };
        cases += 1;
        let v = verdict(&openings, &proof);
        if v != "ACCEPTED" { bad.push(format!("{tag}: honest proof {v}")); continue; }
        let mut expect_reject = |what: String, op: &Vec<FriOpenings<F, D>>, p: &crate::fri::proof::FriProof<F, PoseidonHash, D>, bad: &mut Vec<String>| { cases += 1; let v = verdict(op, p); if v != "rejected" { bad.push(format!("{tag}: {what} -> {v}")); } };
        // false openings
        for i in 0..ks.len() { for o in 0..n_oracles { let mut op: Vec<FriOpenings<F, D>> = openings.iter().map(|x| FriOpenings { batches: x.batches.iter().map(|b| FriOpeningBatch { values: b.values.clone() }).collect() }).collect(); op[i].batches[0].values[o] += FE::ONE; expect_reject(format!("claimed opening of polynomial {i} of oracle {o} altered"), &op, &proof, &mut bad); } }
        // every query round (also the rounds that revisit a position), every oracle: leaf values and authentication paths
        for r in 0..proof.query_round_proofs.len() {
            for o in 0..n_oracles {
                for e in 0..ks.len() { let mut p = proof.clone(); p.query_round_proofs[r].initial_trees_proof.evals_proofs[o].0[e] += F::ONE; expect_reject(format!("round {r}: leaf value {e} of oracle {o} altered"), &openings, &p, &mut bad); }
                let ns = proof.query_round_proofs[r].initial_trees_proof.evals_proofs[o].1.siblings.len();
                for sidx in [0usize, ns / 2, ns.saturating_sub(1)] { if sidx < ns { let mut p = proof.clone(); p.query_round_proofs[r].initial_trees_proof.evals_proofs[o].1.siblings[sidx].elements[0] += F::ONE; expect_reject(format!("round {r}: sibling {sidx} of the path of oracle {o} altered"), &openings, &p, &mut bad); } }
            }
            for s in 0..proof.query_round_proofs[r].steps.len() {
                { let mut p = proof.clone(); let l = p.query_round_proofs[r].steps[s].evals.len() - 1; p.query_round_proofs[r].steps[s].evals[l] += FE::ONE; expect_reject(format!("round {r}: coset evaluation of step {s} altered"), &openings, &p, &mut bad); }
                if !proof.query_round_proofs[r].steps[s].merkle_proof.siblings.is_empty() { let mut p = proof.clone(); p.query_round_proofs[r].steps[s].merkle_proof.siblings[0].elements[1] += F::ONE; expect_reject(format!("round {r}: path of step {s} altered"), &openings, &p, &mut bad); }
            }
        }
        { let mut p = proof.clone(); p.final_poly.coeffs[0] += FE::ONE; expect_reject("final polynomial altered".into(), &openings, &p, &mut bad); }
        { let mut p = proof.clone(); p.query_round_proofs.pop(); expect_reject("last query round dropped".into(), &openings, &p, &mut bad); }
        { let mut p = proof.clone(); p.query_round_proofs.clear(); expect_reject("all query rounds dropped".into(), &openings, &p, &mut bad); }
        { let mut p = proof.clone(); let l = p.query_round_proofs[0].clone(); p.query_round_proofs.push(l); expect_reject("surplus query round".into(), &openings, &p, &mut bad); }
        for k in 0..proof.commit_phase_merkle_caps.len() { let mut p = proof.clone(); p.commit_phase_merkle_caps[k].0[0].elements[0] += F::ONE; expect_reject(format!("commit-phase cap {k} altered (challenges held fixed)"), &openings, &p, &mut bad); }
        for o in 0..n_oracles { let mut c2 = caps.clone(); for e in c2[o].0.iter_mut() { e.elements[2] += F::ONE; }
            cases += 1; let v = match catch_unwind(AssertUnwindSafe(|| verify_batch_fri_proof::<F, PC, D>(&ks, &instances, &openings, &ch, &c2, &proof, &fri_params))) { Ok(Ok(())) => "ACCEPTED", Ok(Err(_)) => "rejected", Err(_) => "PANICKED" };
            if v != "rejected" { bad.push(format!("{tag}: commitment (cap) of oracle {o} replaced -> {v}")); } }
    }
    finish("c05_batch_fri", cases, bad);
}

// C04 / C13: the challenger as a black box: whatever is absorbed between two challenges, by whichever method and of whatever length
// (in particular lengths that end exactly on a sponge block), the next challenge depends on it and buffered outputs are never reused
#[test]
fn c04_challenger_battery() {
    use crate::iop::challenger::Challenger;
    use crate::field::types::Sample;
    let mut bad = Vec::new();
    let mut cases = 0usize;
    fn run<H: Hasher<F>>(tag: &str, mk_hash: &dyn Fn(u64) -> H::Hash, bad: &mut Vec<String>, cases: &mut usize) {
        use crate::iop::challenger::Challenger;
        for prefix in [0usize, 1, 5, 8, 11] {
            for pre_draws in [0usize, 1, 3, 8, 9] {
                for method in 0..4usize {
                    for len in 1..=20usize {
                        if method == 2 && len > 3 { continue; }        // hashes: 1..3 digests
                        if method == 3 && len > 5 { continue; }        // caps: 1..5 entries
                        // two absorptions that differ in exactly one position (first / middle / last)
                        for pos in [0usize, len / 2, len - 1] {
                            let mut outs = Vec::new();
                            for variant in 0..2u64 {
                                let mut c = Challenger::<F, H>::new();
                                c.observe_elements(&(0..prefix).map(|i| F::from_canonical_u64(1000 + i as u64)).collect::<Vec<_>>());
                                let _ = c.get_n_challenges(pre_draws);
                                let val = |i: usize| 7 * i as u64 + 3 + if i == pos { variant } else { 0 };
                                match method {
                                    0 => c.observe_elements(&(0..len).map(|i| F::from_canonical_u64(val(i))).collect::<Vec<_>>()),
                                    1 => c.observe_extension_elements::<D>(&(0..len).map(|i| FE::from_basefield_array([F::from_canonical_u64(val(i)), F::from_canonical_u64(5)])).collect::<Vec<_>>()),
                                    2 => { for i in 0..len { c.observe_hash::<H>(mk_hash(val(i))); } }
                                    _ => c.observe_cap::<H>(&MerkleCap((0..len).map(|i| mk_hash(val(i))).collect())),
                                }
                                outs.push(c.get_n_challenges(3));
                            }
                            *cases += 1;
                            if outs[0][0] == outs[1][0] { bad.push(format!("{tag}: after {prefix} elements and {pre_draws} challenges, absorbing {len} items by method {} differing in position {pos}: the next challenge is the same", ["observe_elements", "observe_extension_elements", "observe_hash", "observe_cap"][method])); }
                        }
                    }
                }
            }
        }
    }
    use crate::field::extension::FieldExtension;
    run::<PoseidonHash>("poseidon", &|x| HashOut { elements: [F::from_canonical_u64(x), F::ONE, F::TWO, F::from_canonical_u64(9)] }, &mut bad, &mut cases);
    run::<KeccakHash<25>>("keccak", &|x| { let mut b = [7u8; 25]; b[24] = (x % 251) as u8; b[0] = (x / 251 % 251) as u8; crate::hash::hash_types::BytesHash(b) }, &mut bad, &mut cases);
    finish("c04_challenger_battery", cases, bad);
}

// C12: wide leaves (several sponge blocks) and batch Merkle trees (matrices of different heights under one cap)
fn c12_wide_batch<H: Hasher<F>>(tag: &str, bad: &mut Vec<String>, cases: &mut usize) {
    use crate::hash::batch_merkle_tree::BatchMerkleTree;
    use crate::hash::merkle_proofs::verify_batch_merkle_proof_to_cap;
    use crate::plonk::config::GenericHashOut;
    // (a) the leaf hash depends on every element of a leaf, whatever its width (a leaf is absorbed in rate-sized blocks, nothing is forgotten)
    for width in 1..=41usize {
        let v: Vec<F> = (0..width).map(|j| F::from_canonical_u64(1000 + 13 * j as u64)).collect();
        let h = H::hash_or_noop(&v);
        for pos in 0..width { let mut w = v.clone(); w[pos] += F::ONE; *cases += 1; if H::hash_or_noop(&w) == h { bad.push(format!("{tag}: leaf of width {width}: changing element {pos} does not change the leaf digest")); break; } }
    }
    for &width in &[8usize, 12, 16, 24, 25, 40] {
        let n = 8usize;
        let leaves: Vec<Vec<F>> = (0..n).map(|i| (0..width).map(|j| F::from_canonical_u64((i * 131 + j * 7 + 1) as u64)).collect()).collect();
        for cap_height in [0usize, 1, 3] {
            let tree = MerkleTree::<F, H>::new(leaves.clone(), cap_height);
            for i in 0..n {
                let proof = tree.prove(i);
                *cases += 1;
                if verify_merkle_proof_to_cap::<F, H>(leaves[i].clone(), i, &tree.cap, &proof).is_err() { bad.push(format!("{tag}: width {width} cap {cap_height}: honest opening of {i} rejected")); continue; }
                for pos in [0usize, 7.min(width - 1), 8.min(width - 1), width / 2, width - 1] {
                    let mut l = leaves[i].clone(); l[pos] += F::ONE; *cases += 1;
                    if let Ok(Ok(())) = catch_unwind(AssertUnwindSafe(|| verify_merkle_proof_to_cap::<F, H>(l, i, &tree.cap, &proof))) { bad.push(format!("{tag}: width {width} cap {cap_height}: leaf {i} with element {pos} altered is accepted")); }
                }
            }
        }
    }
    // (b) batch trees: cap == level-by-level recomputation; every opening verifies; altered rows / positions are rejected
    let shapes: Vec<(Vec<(usize, usize)>, usize)> = vec![
        (vec![(4, 3), (2, 2)], 2), (vec![(4, 3), (2, 2)], 0), (vec![(4, 3), (2, 2)], 1), (vec![(5, 1), (3, 2), (1, 4)], 0), (vec![(5, 1), (3, 2), (1, 4)], 1),
        (vec![(3, 2)], 3), (vec![(3, 2)], 0), (vec![(4, 5), (3, 1)], 3), (vec![(4, 9), (1, 9)], 1), (vec![(2, 1), (1, 1), (0, 1)], 0),
    ];
    for (shape, cap_height) in shapes {
        let mats: Vec<Vec<Vec<F>>> = shape.iter().enumerate().map(|(m, &(lr, w))| (0..1usize << lr).map(|r| (0..w).map(|c| F::from_canonical_u64((m * 10007 + r * 101 + c * 3 + 1) as u64)).collect()).collect()).collect();
        let stag = format!("{tag}: batch tree {shape:?} cap {cap_height}");
        let tree = match catch_unwind(AssertUnwindSafe(|| BatchMerkleTree::<F, H>::new(mats.clone(), cap_height))) { Ok(t) => t, Err(_) => { bad.push(format!("{stag}: construction PANICKED")); continue; } };
        // reference cap
        let mut layer: Vec<H::Hash> = mats[0].iter().map(|r| H::hash_or_noop(r)).collect();
        let mut next = 1;
        loop {
            if next < mats.len() && mats[next].len() == layer.len() {
                layer = layer.iter().zip(&mats[next]).map(|(d, row)| { let mut v = d.to_vec(); v.extend_from_slice(row); H::hash_or_noop(&v) }).collect();
                next += 1;
            }
            if layer.len() == 1 << cap_height { break; }
            layer = layer.chunks(2).map(|p| H::two_to_one(p[0], p[1])).collect();
        }
        *cases += 1;
        if next != mats.len() { continue; }   // the shortest matrix is below the cap: not a valid shape
        if tree.cap.0 != layer { bad.push(format!("{stag}: cap differs from the level-by-level recomputation (some rows are not committed)")); }
        let n = mats[0].len();
        for i in 0..n {
            let proof = tree.open_batch(i);
            let vals = tree.values(i);
            *cases += 1;
            match catch_unwind(AssertUnwindSafe(|| verify_batch_merkle_proof_to_cap::<F, H>(&vals, &tree.leaf_heights, i, &tree.cap, &proof))) {
                Ok(Ok(())) => {}
                _ => { bad.push(format!("{stag}: honest opening of position {i} rejected")); continue; }
            }
            for m in 0..vals.len() { let mut v2 = vals.clone(); v2[m][0] += F::ONE; *cases += 1;
                if let Ok(Ok(())) = catch_unwind(AssertUnwindSafe(|| verify_batch_merkle_proof_to_cap::<F, H>(&v2, &tree.leaf_heights, i, &tree.cap, &proof))) { bad.push(format!("{stag}: position {i}: altered row of matrix {m} accepted")); } }
            if n > 1 { let j = (i + 1) % n; if vals != tree.values(j) { *cases += 1;
                if let Ok(Ok(())) = catch_unwind(AssertUnwindSafe(|| verify_batch_merkle_proof_to_cap::<F, H>(&vals, &tree.leaf_heights, j, &tree.cap, &proof))) { bad.push(format!("{stag}: opening of position {i} accepted at position {j}")); } } }
        }
    }
}

#[test]
fn c12_wide_and_batch_poseidon() {
    let mut bad = Vec::new(); let mut cases = 0usize;
    c12_wide_batch::<PoseidonHash>("poseidon", &mut bad, &mut cases);
    finish("c12_wide_and_batch_poseidon", cases, bad);
}

#[test]
fn c12_wide_and_batch_keccak() {
    let mut bad = Vec::new(); let mut cases = 0usize;
    c12_wide_batch::<KeccakHash<25>>("keccak", &mut bad, &mut cases);
    finish("c12_wide_and_batch_keccak", cases, bad);
}

// C17: every registered gate / generator type (through a recursive verifier circuit and the gadget zoo), every FriReductionStrategy variant,
// proofs under mixed FRI arities, compressed proofs
#[test]
fn c17_all_gates_and_configs() {
    use crate::util::serialization::{DefaultGateSerializer, DefaultGeneratorSerializer};
    use crate::plonk::proof::CompressedProofWithPublicInputs;
    use std::sync::Arc;
    let mut bad = Vec::new();
    let mut cases = 0usize;
    let gs = DefaultGateSerializer;
    let ws = DefaultGeneratorSerializer::<PC, D> { _phantom: Default::default() };
    // (1) FRI configuration codec: every strategy variant, inside common data and inside whole circuits; proofs under those strategies
    let strategies = vec![
        ("ConstantArityBits(4,5)", FriReductionStrategy::ConstantArityBits(4, 5)), ("ConstantArityBits(1,1)", FriReductionStrategy::ConstantArityBits(1, 1)),
        ("Fixed([3,2,1])", FriReductionStrategy::Fixed(vec![3, 2, 1])), ("Fixed([1,3])", FriReductionStrategy::Fixed(vec![1, 3])), ("Fixed([2,2])", FriReductionStrategy::Fixed(vec![2, 2])), ("Fixed([])", FriReductionStrategy::Fixed(vec![])),
        ("MinSize(None)", FriReductionStrategy::MinSize(None)), ("MinSize(Some(3))", FriReductionStrategy::MinSize(Some(3))),
    ];
    for (sname, strat) in strategies {
        let mut cfg = CircuitConfig::standard_recursion_config();
        cfg.fri_config.reduction_strategy = strat; cfg.fri_config.num_query_rounds = 12; cfg.security_bits = 40; cfg.fri_config.proof_of_work_bits = 4;
        let built = catch_unwind(AssertUnwindSafe(|| circuit_rows(cfg, 1 << 7, 9, false, false)));
        let Ok((data, proof)) = built else { continue; };   // a strategy the prover itself refuses for this size is not a case
        cases += 1;
        if data.verify(proof.clone()).is_err() { bad.push(format!("{sname}: honest proof rejected")); continue; }
        cases += 1;
        match catch_unwind(AssertUnwindSafe(|| ProofWithPublicInputs::<F, PC, D>::from_bytes(proof.to_bytes(), &data.common))) { Ok(Ok(p2)) => if p2 != proof { bad.push(format!("{sname}: proof bytes round trip differs")) }, Ok(Err(_)) => bad.push(format!("{sname}: proof from_bytes fails on an encoded valid proof")), Err(_) => bad.push(format!("{sname}: proof from_bytes PANICKED")) }
        cases += 1;
        match catch_unwind(AssertUnwindSafe(|| data.compress(proof.clone()))) {
            Ok(Ok(comp)) => {
                match catch_unwind(AssertUnwindSafe(|| CompressedProofWithPublicInputs::<F, PC, D>::from_bytes(comp.to_bytes(), &data.common))) { Ok(Ok(c2)) => if c2 != comp { bad.push(format!("{sname}: compressed proof bytes round trip differs")) }, Ok(Err(_)) => bad.push(format!("{sname}: compressed from_bytes fails on an encoded valid proof")), Err(_) => bad.push(format!("{sname}: compressed from_bytes PANICKED")) }
                cases += 1;
                match catch_unwind(AssertUnwindSafe(|| data.decompress(comp.clone()))) { Ok(Ok(p3)) => if p3 != proof { bad.push(format!("{sname}: decompress(compress(p)) != p")) }, _ => bad.push(format!("{sname}: decompress(compress(p)) fails")) }
                cases += 1;
                if !matches!(catch_unwind(AssertUnwindSafe(|| data.verify_compressed(comp))), Ok(Ok(()))) { bad.push(format!("{sname}: compressed form of an accepted proof is not accepted")); }
            }
            _ => bad.push(format!("{sname}: compress failed")),
        }
        cases += 2;
        match catch_unwind(AssertUnwindSafe(|| data.common.to_bytes(&gs).ok().and_then(|b| crate::plonk::circuit_data::CommonCircuitData::<F, D>::from_bytes(b, &gs).ok()))) { Ok(Some(c2)) => if c2 != data.common { bad.push(format!("{sname}: common data bytes round trip differs")) }, _ => bad.push(format!("{sname}: common data byte round trip fails")) }
        match catch_unwind(AssertUnwindSafe(|| data.to_bytes(&gs, &ws).ok().and_then(|b| CircuitData::<F, PC, D>::from_bytes(&b, &gs, &ws).ok()))) { Ok(Some(d2)) => if d2 != data { bad.push(format!("{sname}: circuit data bytes round trip differs")) }, _ => bad.push(format!("{sname}: circuit data byte round trip fails")) }
    }
    // (2) a circuit that uses the gadget zoo, and a recursive verifier of it: between them every gate and generator type of the default registries
    let inner = {
        let mut b = CircuitBuilder::<F, D>::new(CircuitConfig::standard_recursion_config());
        let xs = b.add_virtual_targets(6);
        b.register_public_input(xs[0]);
        let h = b.hash_n_to_hash_no_pad::<PoseidonHash>(xs.clone()); b.register_public_inputs(&h.elements);
        let e = b.exp_u64(xs[1], 11); b.register_public_input(e);
        let bits = b.split_le(xs[2], 5); let e2 = b.exp_from_bits(xs[3], bits.iter()); b.register_public_input(e2);
        b.range_check(xs[2], 5);
        let table: Vec<(u16, u16)> = (0..32u16).map(|i| (i, i * 3 + 1)).collect();
        let ti = b.add_lookup_table_from_pairs(Arc::new(table)); let lo = b.add_lookup_from_index(xs[2], ti); b.register_public_input(lo);
        let v: Vec<_> = (0..8).map(|k| b.constant(F::from_canonical_u64(50 + k))).collect(); let ra = b.random_access(xs[4], v); b.register_public_input(ra);
        let exts: Vec<_> = (0..70).map(|k| { let t = b.constant(F::from_canonical_u64(k + 2)); b.convert_to_ext(t) }).collect();
        let alpha = b.convert_to_ext(xs[5]);
        let mut rf = crate::util::reducing::ReducingFactorTarget::new(alpha); let red = rf.reduce(&exts, &mut b); b.register_public_inputs(&red.0);
        let bases: Vec<_> = (0..40).map(|k| b.constant(F::from_canonical_u64(k + 7))).collect();
        let mut rf2 = crate::util::reducing::ReducingFactorTarget::new(alpha); let red2 = rf2.reduce_base(&bases, &mut b); b.register_public_inputs(&red2.0);
        let m = b.mul_extension(red, red2); let a = b.add_extension(m, alpha); b.register_public_inputs(&a.0);
        let data = b.build::<PC>();
        let mut pw = PartialWitness::new();
        for (k, &t) in xs.iter().enumerate() { pw.set_target(t, F::from_canonical_u64([9u64, 3, 21, 5, 6, 77][k])).unwrap(); }
        (data, pw)
    };
    let (inner_data, inner_pw) = inner;
    let inner_proof = match catch_unwind(AssertUnwindSafe(|| inner_data.prove(inner_pw.clone()))) { Ok(Ok(p)) => Some(p), _ => { bad.push("gadget circuit: honest proving failed".into()); None } };
    let roundtrip = |tag: &str, data: &CircuitData<F, PC, D>, pw: PartialWitness<F>, proof: &ProofWithPublicInputs<F, PC, D>, bad: &mut Vec<String>, cases: &mut usize| {
        *cases += 1;
        let restored = match catch_unwind(AssertUnwindSafe(|| data.to_bytes(&gs, &ws).ok().and_then(|b| CircuitData::<F, PC, D>::from_bytes(&b, &gs, &ws).ok()))) { Ok(Some(d)) => d, _ => { bad.push(format!("{tag}: circuit byte round trip fails")); return; } };
        if &restored != data { bad.push(format!("{tag}: restored circuit data differ")); }
        if restored.verifier_only.circuit_digest != data.verifier_only.circuit_digest { bad.push(format!("{tag}: restored circuit has another digest")); }
        *cases += 2;
        if restored.verify(proof.clone()).is_err() { bad.push(format!("{tag}: restored circuit rejects the original circuit's proof")); }
        match catch_unwind(AssertUnwindSafe(|| restored.prove(pw))) {
            Ok(Ok(p2)) => { if data.verify(p2.clone()).is_err() { bad.push(format!("{tag}: original circuit rejects the restored circuit's proof")); } if p2.public_inputs != proof.public_inputs { bad.push(format!("{tag}: restored circuit computes different public inputs")); } }
            Ok(Err(e)) => bad.push(format!("{tag}: restored circuit fails to prove: {e}")),
            Err(_) => bad.push(format!("{tag}: restored circuit PANICKED while proving")),
        }
        // verifier data as a separate artefact
        *cases += 1;
        match catch_unwind(AssertUnwindSafe(|| data.verifier_data().to_bytes(&gs).ok().and_then(|b| crate::plonk::circuit_data::VerifierCircuitData::<F, PC, D>::from_bytes(b, &gs).ok()))) {
            Ok(Some(v2)) => { if v2.verify(proof.clone()).is_err() { bad.push(format!("{tag}: restored verifier data reject the proof")); } }, _ => bad.push(format!("{tag}: verifier data byte round trip fails")) }
    };
    if let Some(ip) = inner_proof.as_ref() {
        roundtrip("gadget circuit", &inner_data, inner_pw.clone(), ip, &mut bad, &mut cases);
        // recursive verifier of the gadget circuit
        let mut b = CircuitBuilder::<F, D>::new(CircuitConfig::standard_recursion_config());
        let pt = b.add_virtual_proof_with_pis(&inner_data.common);
        let vd = b.add_virtual_verifier_data(inner_data.common.config.fri_config.cap_height);
        b.verify_proof::<PC>(&pt, &vd, &inner_data.common);
        b.register_public_inputs(&pt.public_inputs);
        let outer = b.build::<PC>();
        let mut pw = PartialWitness::new();
        pw.set_proof_with_pis_target(&pt, ip).unwrap(); pw.set_verifier_data_target(&vd, &inner_data.verifier_only).unwrap();
        match catch_unwind(AssertUnwindSafe(|| outer.prove(pw.clone()))) {
            Ok(Ok(op)) => roundtrip("recursive verifier circuit", &outer, pw, &op, &mut bad, &mut cases),
            _ => bad.push("recursive verifier circuit: honest proving failed".into()),
        }
    }
    finish("c17_all_gates_and_configs", cases, bad);
}

// C02: an assignment that gives two different values to one copy class is refused (never silently repaired into an accepted proof of something else)
#[test]
fn c02_conflicting_assignments() {
    let mut bad = Vec::new();
    let mut cases = 0usize;
    for order in 0..4usize {
        let mut b = CircuitBuilder::<F, D>::new(CircuitConfig::standard_recursion_config());
        let x = b.add_virtual_target(); let y = b.add_virtual_target();
        b.register_public_input(x); b.register_public_input(y);
        let sq = b.mul(x, x);
        match order { 0 => b.connect(y, sq), 1 => b.connect(sq, y), 2 => { let z = b.add_virtual_target(); b.connect(z, sq); b.connect(y, z); } _ => { let d = b.sub(y, sq); b.assert_zero(d); } }
        let data = b.build::<PC>();
        for (xv, yv, consistent) in [(3u64, 9u64, true), (3, 10, false), (0, 1, false), (5, 24, false)] {
            let mut pw = PartialWitness::new();
            pw.set_target(x, F::from_canonical_u64(xv)).unwrap(); pw.set_target(y, F::from_canonical_u64(yv)).unwrap();
            cases += 1;
            let r = catch_unwind(AssertUnwindSafe(|| data.prove(pw)));
            match r {
                Ok(Ok(p)) => {
                    let acc = data.verify(p.clone()).is_ok();
                    if consistent { if !acc { bad.push(format!("connect order {order}: consistent assignment ({xv}, {yv}) not accepted")); } }
                    else if acc { bad.push(format!("connect order {order}: conflicting assignment x = {xv}, y = {yv} was not refused: an accepted proof with public inputs {:?} came back", p.public_inputs.iter().map(|v| v.to_canonical_u64()).collect::<Vec<_>>())); }
                }
                _ => { if consistent { bad.push(format!("connect order {order}: consistent assignment ({xv}, {yv}) not provable")); } }
            }
        }
    }
    // two CALLER-assigned targets in one copy class (no generator involved), directly and through a chain of connections
    for chain in 0..3usize {
        let mut b = CircuitBuilder::<F, D>::new(CircuitConfig::standard_recursion_config());
        let a = b.add_virtual_target(); let c = b.add_virtual_target();
        b.register_public_input(a); b.register_public_input(c);
        match chain { 0 => b.connect(a, c), 1 => { let m = b.add_virtual_target(); b.connect(a, m); b.connect(m, c); } _ => { let m = b.add_virtual_target(); let k = b.add_virtual_target(); b.connect(c, m); b.connect(k, a); b.connect(m, k); } }
        let seven = b.constant(F::from_canonical_u64(7)); let pr = b.mul(a, seven); b.register_public_input(pr);
        let data = b.build::<PC>();
        for (av, cv, consistent) in [(6u64, 6u64, true), (6, 9, false), (0, 1, false), (9, 6, false)] {
            let mut pw = PartialWitness::new();
            pw.set_target(a, F::from_canonical_u64(av)).unwrap(); pw.set_target(c, F::from_canonical_u64(cv)).unwrap();
            cases += 1;
            match catch_unwind(AssertUnwindSafe(|| data.prove(pw))) {
                Ok(Ok(p)) => { let acc = data.verify(p.clone()).is_ok();
                    if consistent != acc { bad.push(format!("two caller-assigned connected targets (chain {chain}) with values {av}, {cv}: {}", if acc { "conflict not refused, an accepted proof came back" } else { "consistent assignment not accepted" })); } }
                _ => { if consistent { bad.push(format!("two caller-assigned connected targets (chain {chain}) with equal values {av}: not provable")); } }
            }
        }
    }
    finish("c02_conflicting_assignments", cases, bad);
}

// C13: the hash functions built on the permutations (native and in-circuit) against a textbook overwrite-mode sponge over the NAIVE permutation
#[test]
fn c13_hash_variants() {
    use crate::hash::hashing::{compress, hash_n_to_m_no_pad};
    use crate::hash::poseidon::{Poseidon, PoseidonPermutation};
    use crate::iop::generator::generate_partial_witness;
    use crate::iop::witness::Witness;
    use crate::hash::hashing::PlonkyPermutation;
    let mut bad = Vec::new();
    let mut cases = 0usize;
    let sponge = |inp: &[F], m: usize| -> Vec<F> {
        let mut st = [F::ZERO; 12];
        for ch in inp.chunks(8) { st[..ch.len()].copy_from_slice(ch); st = F::poseidon_naive(st); }
        let mut out = Vec::new();
        loop { for k in 0..8 { out.push(st[k]); if out.len() == m { return out; } } st = F::poseidon_naive(st); }
    };
    let lat = [0u64, 1, 0xFFFF_FFFF, 0xFFFF_FFFF_0000_0000, 0xFFFF_FFFF_0000_0001, u64::MAX];
    for len in 0..=26usize {
        let v: Vec<F> = (0..len).map(|i| F::from_noncanonical_u64(if i % 3 == 0 { lat[i % lat.len()] } else { 0x9E37_79B9_7F4A_7C15u64.wrapping_mul(i as u64 + 1) })).collect();
        for m in [1usize, 3, 4, 7, 8, 9, 16, 17, 20] {
            cases += 1;
            let got = hash_n_to_m_no_pad::<F, PoseidonPermutation<F>>(&v, m);
            let want = sponge(&v, m);
            if got.len() != m || got.iter().zip(&want).any(|(a, b)| a.to_canonical_u64() != b.to_canonical_u64()) { bad.push(format!("hash_n_to_m_no_pad: {len} inputs, {m} outputs differ from the textbook sponge")); break; }
        }
        cases += 2;
        let h = PoseidonHash::hash_no_pad(&v);
        if h.elements.iter().zip(sponge(&v, 4)).any(|(a, b)| a.to_canonical_u64() != b.to_canonical_u64()) { bad.push(format!("PoseidonHash::hash_no_pad differs from the sponge for length {len}")); }
        let hn = PoseidonHash::hash_or_noop(&v);
        let want: Vec<F> = if len <= 4 { let mut w = v.clone(); w.resize(4, F::ZERO); w } else { sponge(&v, 4) };
        if hn.elements.iter().zip(&want).any(|(a, b)| a.to_canonical_u64() != b.to_canonical_u64()) { bad.push(format!("PoseidonHash::hash_or_noop wrong for length {len}")); }
        // a trailing zero element changes the digest of a sponge input (lengths are not confused), also across a block boundary
        if len > 4 { let mut w = v.clone(); w.push(F::ZERO); cases += 1; if PoseidonHash::hash_no_pad(&w) == h && len % 8 != 0 { /* same block: padding-free sponges may collide only by design when overwriting zeros into a zero state */ }
            let mut w2 = v.clone(); w2[len - 1] += F::ONE; cases += 1; if PoseidonHash::hash_no_pad(&w2) == h { bad.push(format!("PoseidonHash::hash_no_pad ignores the last of {len} elements")); } }
    }
    // two_to_one == permutation of [left | right | 0 0 0 0], first four lanes
    for t in 0..40u64 {
        let a = HashOut { elements: core::array::from_fn(|k| F::from_noncanonical_u64(lat[((t + k as u64) % 6) as usize].wrapping_add(t * 77))) };
        let b = HashOut { elements: core::array::from_fn(|k| F::from_canonical_u64(1000 * t + k as u64)) };
        let mut st = [F::ZERO; 12]; st[..4].copy_from_slice(&a.elements); st[4..8].copy_from_slice(&b.elements);
        let w = F::poseidon_naive(st);
        cases += 2;
        if PoseidonHash::two_to_one(a, b).elements.iter().zip(&w[..4]).any(|(x, y)| x.to_canonical_u64() != y.to_canonical_u64()) { bad.push(format!("PoseidonHash::two_to_one differs from the compression function (case {t})")); }
        if compress::<F, PoseidonPermutation<F>>(a, b).elements.iter().zip(&w[..4]).any(|(x, y)| x.to_canonical_u64() != y.to_canonical_u64()) { bad.push(format!("compress differs from the compression function (case {t})")); }
        if a != b { cases += 1; if PoseidonHash::two_to_one(a, b) == PoseidonHash::two_to_one(b, a) { bad.push("two_to_one is symmetric".into()); } }
    }
    // Keccak: every element (and the length) of the input reaches the digest; two_to_one is order sensitive
    for len in 0..=40usize {
        let v: Vec<F> = (0..len).map(|i| F::from_canonical_u64(31 * i as u64 + 5)).collect();
        let h = KeccakHash::<25>::hash_no_pad(&v);
        for pos in 0..len { let mut w = v.clone(); w[pos] += F::ONE; cases += 1; if KeccakHash::<25>::hash_no_pad(&w) == h { bad.push(format!("KeccakHash::hash_no_pad ignores element {pos} of {len}")); break; } }
        { let mut w = v.clone(); w.push(F::ZERO); cases += 1; if KeccakHash::<25>::hash_no_pad(&w) == h { bad.push(format!("KeccakHash::hash_no_pad: appending a zero to {len} elements keeps the digest")); } }
    }
    { let a = KeccakHash::<25>::hash_no_pad(&[F::ONE]); let b = KeccakHash::<25>::hash_no_pad(&[F::TWO]); cases += 1; if <KeccakHash<25> as Hasher<F>>::two_to_one(a, b) == <KeccakHash<25> as Hasher<F>>::two_to_one(b, a) { bad.push("Keccak two_to_one is symmetric".into()); } }
    // hash_pad == hash_no_pad of the pad10*1 padding (a one, zeros up to one short of a multiple of the rate, a final one); padding is injective
    {
        fn pad_battery<H: Hasher<F>>(tag: &str, bad: &mut Vec<String>, cases: &mut usize) {
            let rate = 8usize;
            for len in 0..=40usize {
                let m: Vec<F> = (0..len).map(|i| F::from_canonical_u64(17 * i as u64 + 3)).collect();
                let mut padded = m.clone(); padded.push(F::ONE);
                while (padded.len() + 1) % rate != 0 { padded.push(F::ZERO); }
                padded.push(F::ONE);
                *cases += 1;
                match catch_unwind(AssertUnwindSafe(|| H::hash_pad(&m))) {
                    Err(_) => bad.push(format!("{tag}::hash_pad PANICKED on a message of length {len}")),
                    Ok(h) => {
                        if h != H::hash_no_pad(&padded) { bad.push(format!("{tag}::hash_pad differs from hashing the pad10*1 padding, message length {len}")); }
                        // messages that the padding must keep apart: m || 1, m || 1 || 0.., m || 0
                        for ext in [vec![F::ONE], vec![F::ZERO], vec![F::ONE, F::ZERO], vec![F::ONE, F::ZERO, F::ZERO, F::ZERO, F::ZERO, F::ZERO, F::ZERO, F::ONE]] {
                            let mut m2 = m.clone(); m2.extend(ext.iter().copied()); *cases += 1;
                            if let Ok(h2) = catch_unwind(AssertUnwindSafe(|| H::hash_pad(&m2))) { if h2 == h { bad.push(format!("{tag}::hash_pad collides: message of length {len} and the same message extended by {:?}", ext.iter().map(|x| x.to_canonical_u64()).collect::<Vec<_>>())); } }
                        }
                    }
                }
            }
        }
        pad_battery::<PoseidonHash>("PoseidonHash", &mut bad, &mut cases);
        pad_battery::<KeccakHash<25>>("KeccakHash", &mut bad, &mut cases);
    }
    // the Keccak permutation against its definition: the little-endian 64-bit words of H(s) || H(H(s)) || ..., words >= p SKIPPED (rejection sampling), the
    // first twelve kept.  The states include one whose first digest has a word >= p (found by search: [494183523, 0, ..])
    {
        use crate::hash::keccak::KeccakPermutation;
        use crate::iop::challenger::Challenger;
        use keccak_hash::keccak;
        const ORDER: u64 = 0xFFFF_FFFF_0000_0001;
        let model = |st: &[u64; 12]| -> (Vec<u64>, bool) {
            let mut bytes: Vec<u8> = st.iter().flat_map(|x| x.to_le_bytes()).collect();
            let mut out = Vec::new(); let mut rejected = false;
            while out.len() < 12 { let h = keccak(&bytes).to_fixed_bytes(); bytes = h.to_vec();
                for w in h.chunks_exact(8) { let v = u64::from_le_bytes(w.try_into().unwrap()); if v >= ORDER { if out.len() < 12 { rejected = true; } } else if out.len() < 12 { out.push(v); } } }
            (out, rejected)
        };
        let mut states: Vec<[u64; 12]> = vec![[0; 12], { let mut s = [0u64; 12]; s[0] = 494183523; s }];
        for t in 0..40u64 { let mut s = [0u64; 12]; for (i, x) in s.iter_mut().enumerate() { *x = (t + 1).wrapping_mul(0x9E37_79B9_7F4A_7C15).rotate_left(i as u32 * 5) % ORDER; } states.push(s); }
        let mut any_rejected = false;
        for st in &states {
            let (want, rej) = model(st); any_rejected |= rej;
            let mut perm = KeccakPermutation::<F>::new(st.iter().map(|&x| F::from_canonical_u64(x))); perm.permute();
            let got: Vec<u64> = AsRef::<[F]>::as_ref(&perm).iter().map(|x| x.to_canonical_u64()).collect();
            cases += 1;
            if got != want { bad.push(format!("KeccakPermutation::permute on state {st:?}{}: differs from the rejection-sampled hash onion", if rej { " (a digest word >= p must be skipped)" } else { "" })); }
        }
        if !any_rejected { bad.push("harness: no Keccak state exercises rejection".into()); }
        // the transcript over it: a fresh challenger that observes the single element 494183523 squeezes the first elements of that permutation output
        { let mut s = [0u64; 12]; s[0] = 494183523; let (want, _) = model(&s);
          let mut ch = Challenger::<F, KeccakHash<25>>::new(); ch.observe_element(F::from_canonical_u64(494183523));
          let got: Vec<u64> = ch.get_n_challenges(4).iter().map(|x| x.to_canonical_u64()).collect(); cases += 1;
          let mut w: Vec<u64> = want[..8].to_vec(); w.reverse();
          if got != w[..4] { bad.push("Keccak challenger after observing 494183523: challenges differ from the rejection-sampled hash onion".into()); } }
    }
    // Keccak sponge and hashing see the field ELEMENT, not its u64 representation: x and x + p (x < 2^32 - 1) are the same element
    {
        use crate::hash::keccak::KeccakPermutation;
        use crate::iop::challenger::Challenger;
        const ORDER: u64 = 0xFFFF_FFFF_0000_0001;
        for t in 0..24u64 {
            let canon: Vec<F> = (0..12u64).map(|i| F::from_canonical_u64((t * 977 + i * 31) % 0xFFFF_FFFE)).collect();
            let alias: Vec<F> = canon.iter().enumerate().map(|(i, x)| if (i as u64 + t) % 3 != 1 { F::from_noncanonical_u64(x.0 + ORDER) } else { *x }).collect();
            cases += 1;
            let mut p1 = KeccakPermutation::<F>::new(canon.iter().copied()); p1.permute();
            let mut p2 = KeccakPermutation::<F>::new(alias.iter().copied()); p2.permute();
            if p1.squeeze().iter().zip(p2.squeeze()).any(|(a, b)| a.to_canonical_u64() != b.to_canonical_u64()) { bad.push(format!("KeccakPermutation depends on the representation of its state (case {t})")); }
            cases += 1;
            if KeccakHash::<25>::hash_no_pad(&canon) != KeccakHash::<25>::hash_no_pad(&alias) { bad.push(format!("KeccakHash::hash_no_pad depends on the representation of its input (case {t})")); }
            cases += 1;
            let mut c1 = Challenger::<F, KeccakHash<25>>::new(); c1.observe_elements(&canon[..(t as usize % 12) + 1]);
            let mut c2 = Challenger::<F, KeccakHash<25>>::new(); c2.observe_elements(&alias[..(t as usize % 12) + 1]);
            if c1.get_n_challenges(5).iter().zip(c2.get_n_challenges(5)).any(|(a, b)| a.to_canonical_u64() != b.to_canonical_u64()) { bad.push(format!("Keccak challenger depends on the representation of observed elements (case {t})")); }
            cases += 1;
            let mut c1 = Challenger::<F, PoseidonHash>::new(); c1.observe_elements(&canon[..(t as usize % 12) + 1]);
            let mut c2 = Challenger::<F, PoseidonHash>::new(); c2.observe_elements(&alias[..(t as usize % 12) + 1]);
            if c1.get_n_challenges(5).iter().zip(c2.get_n_challenges(5)).any(|(a, b)| a.to_canonical_u64() != b.to_canonical_u64()) { bad.push(format!("Poseidon challenger depends on the representation of observed elements (case {t})")); }
        }
    }
    // in-circuit hashing == native hashing (witness generation only)
    for len in [0usize, 1, 4, 5, 8, 9, 16, 17, 23] {
        cases += 1;
        let r = catch_unwind(AssertUnwindSafe(|| -> anyhow::Result<bool> {
            let mut b = CircuitBuilder::<F, D>::new(CircuitConfig::standard_recursion_config());
            let ins = b.add_virtual_targets(len);
            let h = b.hash_n_to_hash_no_pad::<PoseidonHash>(ins.clone());
            let hn = b.hash_or_noop::<PoseidonHash>(ins.clone());
            let l = b.add_virtual_hash(); let rr = b.add_virtual_hash();
            let zero = b.zero();
            let mut stt = <PoseidonHash as crate::plonk::config::AlgebraicHasher<F>>::AlgebraicPermutation::new(core::iter::repeat(zero));
            stt.set_from_slice(&l.elements, 0); stt.set_from_slice(&rr.elements, 4);
            let sw = b.add_virtual_bool_target_safe();
            let outp = b.permute_swapped::<PoseidonHash>(stt, sw);
            let t21: Vec<crate::iop::target::Target> = outp.squeeze()[..4].to_vec();
            let data = b.build_prover::<PC>();
            let vals: Vec<F> = (0..len).map(|i| F::from_canonical_u64(12345 * i as u64 + 9)).collect();
            let lv = HashOut { elements: [F::ONE, F::TWO, F::NEG_ONE, F::from_canonical_u64(77)] }; let rv = HashOut { elements: [F::from_canonical_u64(5); 4] };
            let mut pw = PartialWitness::new();
            for (t, v) in ins.iter().zip(&vals) { pw.set_target(*t, *v)?; }
            pw.set_hash_target(l, lv)?; pw.set_hash_target(rr, rv)?; pw.set_bool_target(sw, len % 2 == 1)?;
            let w = generate_partial_witness(pw, &data.prover_only, &data.common)?;
            Ok(w.get_hash_target(h) == PoseidonHash::hash_no_pad(&vals) && w.get_hash_target(hn) == PoseidonHash::hash_or_noop(&vals) && t21.iter().map(|&t| w.get_target(t)).collect::<Vec<_>>() == (if len % 2 == 1 { PoseidonHash::two_to_one(rv, lv) } else { PoseidonHash::two_to_one(lv, rv) }).elements.to_vec())
        }));
        match r { Ok(Ok(true)) => {}, Ok(Ok(false)) => bad.push(format!("in-circuit Poseidon hashing of {len} elements differs from the native functions")), _ => bad.push(format!("in-circuit hashing of {len} elements: witness generation failed")) }
    }
    finish("c13_hash_variants", cases, bad);
}

// Bounded stand-in / fallback harness for the plonky2_field crate (DESIGN.md section 1.5): C14 (field arithmetic vs an
// arbitrary-precision oracle on boundary operands, incl. non-canonical representations) and C15 (transforms / polynomial algebra
// vs their defining O(n^2) identities).  BOUNDED: never counted as proof.
#![allow(unused_imports, dead_code, clippy::all)]
use num::bigint::BigUint;

use crate::extension::quadratic::QuadraticExtension;
use crate::extension::quartic::QuarticExtension;
use crate::extension::quintic::QuinticExtension;
use crate::extension::{Extendable, FieldExtension, Frobenius, OEF};
use crate::fft::{fft, fft_root_table, fft_with_options, ifft, ifft_with_options};
use crate::goldilocks_field::GoldilocksField;
use crate::polynomial::{PolynomialCoeffs, PolynomialValues};
use crate::ops::Square;
use crate::types::{Field, Field64, PrimeField64};

type F = GoldilocksField;
const P: u64 = 0xFFFF_FFFF_0000_0001;

fn seed() -> u64 {
    std::env::var("VERIF_SEED").ok().and_then(|s| s.parse().ok()).unwrap_or(0)
}

fn finish(name: &str, cases: usize, bad: Vec<String>) {
    println!("vx_harness {}: {} cases, {} failures", name, cases, bad.len());
    for b in &bad {
        println!("VXFAIL {}: {}", name, b);
    }
    assert!(bad.is_empty(), "vx_harness {}: {} of {} cases violate the property; first: {:?}", name, bad.len(), cases, &bad[..bad.len().min(4)]);
}

fn lattice() -> Vec<u64> {
    let mut v = vec![0u64, 1, 2, 3, 0xFFFF_FFFE, 0xFFFF_FFFF, 0x1_0000_0000, 0x1_0000_0001, 1 << 63, (1 << 63) - 1, P - 2, P - 1, P, P + 1, P + 2,
        P + 0xFFFF_FFFD, P + 0xFFFF_FFFE, u64::MAX - 1, u64::MAX, 0xFFFF_FFFF_0000_0000, 0xFFFF_FFFE_FFFF_FFFF, 0x8000_0000_0000_0001, 0x7FFF_FFFF_8000_0000,
        (1u64 << 62) - (1 << 30) + 1, 4];
    let mut s = 0x9E37_79B9_7F4A_7C15u64 ^ seed();
    for _ in 0..16 { s ^= s << 13; s ^= s >> 7; s ^= s << 17; v.push(s); }
    v
}

fn m(x: u128) -> u128 { x % (P as u128) }
fn mulm(a: u128, b: u128) -> u128 { m(m(a) * m(b)) }
fn powm(mut b: u128, mut e: u128) -> u128 { let mut r = 1u128; b = m(b); while e > 0 { if e & 1 == 1 { r = mulm(r, b); } b = mulm(b, b); e >>= 1; } r }

// C14: the packed implementation selected by the build (<F as Packable>::Packing: width 1 in a scalar build, 4 with AVX2, 8 with AVX-512) agrees lane by
// lane with the u128 oracle, on every pair of boundary representations placed in every lane
#[test]
fn c14_packed_ops() {
    use crate::packable::Packable;
    use crate::packed::PackedField;
    type PF = <F as Packable>::Packing;
    let w = PF::WIDTH;
    let mut bad = Vec::new();
    let mut cases = 0usize;
    let lat = lattice();
    let n = lat.len();
    let val = |x: F| m(x.0 as u128);
    let hex = |v: &[F]| v.iter().map(|x| format!("{:#x}", x.0)).collect::<Vec<_>>().join(",");
    // operand vectors: lane k of vector (i, j, rot) holds the pair (lat[(i + k*rot) % n], lat[(j + k*(rot+1)) % n]); every pair appears in lane 0, and with
    // different neighbours in the other lanes
    for i in 0..n { for j in 0..n { for rot in [0usize, 1, 5] {
        if w == 1 && rot > 0 { continue; }
        let a: Vec<F> = (0..w).map(|k| F::from_noncanonical_u64(lat[(i + k * rot) % n])).collect();
        let b: Vec<F> = (0..w).map(|k| F::from_noncanonical_u64(lat[(j + k * (rot + 1)) % n])).collect();
        let (pa, pb) = (*PF::from_slice(&a), *PF::from_slice(&b));
        let sc = b[0];
        cases += 1;
        let mut chk = |name: &str, got: PF, want: &dyn Fn(usize) -> u128| {
            let g = got.as_slice();
            if g.len() != w || (0..w).any(|k| val(g[k]) != want(k)) { bad.push(format!("packed (width {w}) {name}: a = [{}], b = [{}] -> [{}]", hex(&a), hex(&b), hex(g))); }
        };
        chk("a + b", pa + pb, &|k| m(val(a[k]) + val(b[k])));
        chk("a - b", pa - pb, &|k| m(val(a[k]) + P as u128 - val(b[k])));
        chk("a * b", pa * pb, &|k| mulm(val(a[k]), val(b[k])));
        chk("-a", -pa, &|k| m(P as u128 - val(a[k])));
        chk("a.square()", pa.square(), &|k| mulm(val(a[k]), val(a[k])));
        chk("a.doubles()", pa.doubles(), &|k| m(2 * val(a[k])));
        chk("a + scalar", pa + sc, &|k| m(val(a[k]) + val(sc)));
        #[cfg(target_feature = "avx2")]
        chk("scalar + a", <F as core::ops::Add<PF>>::add(sc, pa), &|k| m(val(a[k]) + val(sc)));
        chk("a - scalar", pa - sc, &|k| m(val(a[k]) + P as u128 - val(sc)));
        #[cfg(target_feature = "avx2")]
        chk("scalar - a", <F as core::ops::Sub<PF>>::sub(sc, pa), &|k| m(val(sc) + P as u128 - val(a[k])));
        chk("a * scalar", pa * sc, &|k| mulm(val(a[k]), val(sc)));
        #[cfg(target_feature = "avx2")]
        chk("scalar * a", <F as core::ops::Mul<PF>>::mul(sc, pa), &|k| mulm(val(a[k]), val(sc)));
        if val(sc) != 0 { chk("a / scalar", pa / sc, &|k| mulm(val(a[k]), powm(val(sc), P as u128 - 2))); }
        { let mut t = pa; t += pb; chk("a += b", t, &|k| m(val(a[k]) + val(b[k]))); }
        { let mut t = pa; t -= pb; chk("a -= b", t, &|k| m(val(a[k]) + P as u128 - val(b[k]))); }
        { let mut t = pa; t *= pb; chk("a *= b", t, &|k| mulm(val(a[k]), val(b[k]))); }
        { let mut t = pa; t += sc; chk("a += scalar", t, &|k| m(val(a[k]) + val(sc))); }
        { let mut t = pa; t -= sc; chk("a -= scalar", t, &|k| m(val(a[k]) + P as u128 - val(sc))); }
        { let mut t = pa; t *= sc; chk("a *= scalar", t, &|k| mulm(val(a[k]), val(sc))); }
        chk("from(scalar)", PF::from(sc), &|_| val(sc));
        chk("sum [a, b, a]", [pa, pb, pa].into_iter().sum::<PF>(), &|k| m(2 * val(a[k]) + val(b[k])));
        chk("product [a, b, a]", [pa, pb, pa].into_iter().product::<PF>(), &|k| mulm(mulm(val(a[k]), val(b[k])), val(a[k])));
        // interleave: stack the vectors, cut into 2 x 2 matrices of blocks, transpose
        let mut bl = 1usize;
        while bl <= w {
            let (r0, r1) = pa.interleave(pb, bl);
            if bl == w { chk("interleave(width) first", r0, &|k| val(a[k])); chk("interleave(width) second", r1, &|k| val(b[k])); }
            else {
                let src0 = |k: usize| { let blk = k / bl; let off = k % bl; if blk % 2 == 0 { val(a[blk * bl + off]) } else { val(b[(blk - 1) * bl + off]) } };
                let src1 = |k: usize| { let blk = k / bl; let off = k % bl; if blk % 2 == 0 { val(a[(blk + 1) * bl + off]) } else { val(b[blk * bl + off]) } };
                chk(&format!("interleave(block {bl}) first"), r0, &src0); chk(&format!("interleave(block {bl}) second"), r1, &src1);
            }
            bl *= 2;
        }
    } } }
    // pack_slice views: same memory, lane order preserved
    { let v: Vec<F> = (0..4 * w).map(|k| F::from_canonical_u64(k as u64 * 3 + 1)).collect(); cases += 1;
      let ps = PF::pack_slice(&v);
      if ps.len() != 4 || (0..4 * w).any(|k| ps[k / w].as_slice()[k % w] != v[k]) { bad.push(format!("pack_slice (width {w}) does not preserve the element order")); }
      if (0..w).any(|k| PF::ZEROS.as_slice()[k] != F::ZERO || PF::ONES.as_slice()[k] != F::ONE) { bad.push(format!("ZEROS / ONES (width {w}) wrong")); } }
    finish("c14_packed_ops", cases, bad);
}

// C14 (thorough tier: 2^32 additions take about two minutes in a debug build): sums of more than 2^32 terms are exact (an accumulator that is
// reduced late must not drop bits)
#[test]
fn t14_long_sum() {
    let mut bad = Vec::new();
    let mut cases = 0usize;
    let n: u64 = (1u64 << 32) + 2;
    for (what, word) in [("-1 (canonical)", P - 1), ("the word u64::MAX", u64::MAX)] {
        cases += 1;
        let x = F::from_noncanonical_u64(word);
        let got: F = (0..n).map(|_| x).sum();
        let want = mulm(word as u128, n as u128);
        if m(got.0 as u128) != want { bad.push(format!("sum of 2^32 + 2 copies of {what} = {:#x}, expected {:#x}", got.0, want)); }
    }
    finish("t14_long_sum", cases, bad);
}

// C14: every operator returns the exact residue for every representation, and values produced by operators remain usable
#[test]
fn c14_base_field_ops() {
    let mut bad = Vec::new();
    let mut cases = 0usize;
    let lat = lattice();
    // operands reachable through ordinary operators may be non-canonical: derive some that way too
    let mut ops: Vec<F> = lat.iter().map(|&x| F::from_noncanonical_u64(x)).collect();
    ops.push(F::from_canonical_u64(0xFFFF_FFFE) + F::NEG_ONE);
    ops.push(F::NEG_ONE + F::from_canonical_u64(6));
    for &a in &ops { for &b in &ops {
        let (x, y) = (a.0 as u128, b.0 as u128);
        cases += 5;
        if m((a + b).0 as u128) != m(x + y) { bad.push(format!("add: F({:#x}) + F({:#x}) = {:#x}", a.0, b.0, (a + b).0)); }
        if m((a - b).0 as u128 + y) != m(x) { bad.push(format!("sub: F({:#x}) - F({:#x}) = {:#x}", a.0, b.0, (a - b).0)); }
        if m((a * b).0 as u128) != mulm(x, y) { bad.push(format!("mul: F({:#x}) * F({:#x}) = {:#x}", a.0, b.0, (a * b).0)); }
        if m((-a).0 as u128 + x) != 0 { bad.push(format!("neg: -F({:#x}) = {:#x}", a.0, (-a).0)); }
        if m((a + (-a)).0 as u128) != 0 { bad.push(format!("a + (-a) != 0 for F({:#x})", a.0)); }
        for &c in &ops[..6] {
            cases += 1;
            let r = c.multiply_accumulate(a, b);
            if m(r.0 as u128) != m(m(c.0 as u128) + mulm(x, y)) { bad.push(format!("multiply_accumulate: F({:#x}).multiply_accumulate(F({:#x}), F({:#x})) = {:#x}", c.0, a.0, b.0, r.0)); }
        }
    } }
    for &a in &ops {
        let x = a.0 as u128;
        cases += 6;
        if a.to_canonical_u64() as u128 != m(x) { bad.push(format!("to_canonical_u64(F({:#x})) = {:#x}", a.0, a.to_canonical_u64())); }
        if m(a.square().0 as u128) != mulm(x, x) { bad.push(format!("square(F({:#x}))", a.0)); }
        if m(x) != 0 { let i = a.inverse(); if mulm(i.0 as u128, x) != 1 { bad.push(format!("inverse(F({:#x})) = {:#x}", a.0, i.0)); } } else if a.try_inverse().is_some() { bad.push(format!("try_inverse of zero representation {:#x} is Some", a.0)); }
        for e in [0u64, 1, 2, 3, 7, 64, 65, P - 2, u64::MAX] { cases += 1; if m(a.exp_u64(e).0 as u128) != powm(x, e as u128) { bad.push(format!("exp_u64(F({:#x}), {})", a.0, e)); } }
        for k in [0usize, 1, 5, 31, 32] { cases += 1; if m(a.exp_power_of_2(k).0 as u128) != powm(x, 1u128 << k) { bad.push(format!("exp_power_of_2(F({:#x}), {})", a.0, k)); } }
        let n = a.0 as i64; let r = F::from_noncanonical_i64(n);
        let expect = if n >= 0 { m(n as u128) } else { m((P as u128) * 2 - ((-(n as i128)) as u128)) };
        if m(r.0 as u128) != expect { bad.push(format!("from_noncanonical_i64({})", n)); }
        let r = F::from_noncanonical_u128(((a.0 as u128) << 64) | 0xFFFF_FFFF_FFFF_FFFF);
        if m(r.0 as u128) != m(((a.0 as u128) << 64) | 0xFFFF_FFFF_FFFF_FFFF) { bad.push(format!("from_noncanonical_u128 hi={:#x}", a.0)); }
        let r = F::from_noncanonical_u96((a.0, 0xFFFF_FFFF)); if m(r.0 as u128) != m((0xFFFF_FFFFu128 << 64) + x) { bad.push(format!("from_noncanonical_u96 lo={:#x}", a.0)); }
    }
    for exp in [0usize, 1, 31, 32, 33, 63, 64, 65, 96, 200] { cases += 1; let r = F::inverse_2exp(exp); if mulm(r.0 as u128, powm(2, exp as u128)) != 1 { bad.push(format!("inverse_2exp({exp})")); } }
    // batch inversion, all small lengths and the four interleaved chains
    for n in 0..23usize { let xs: Vec<F> = (0..n).map(|i| ops[(i * 7 + 3) % ops.len()]).filter(|x| x.is_nonzero()).collect(); cases += 1;
        let inv = F::batch_multiplicative_inverse(&xs);
        if inv.len() != xs.len() || xs.iter().zip(&inv).any(|(x, i)| mulm(x.0 as u128, i.0 as u128) != 1) { bad.push(format!("batch_multiplicative_inverse on {} elements", xs.len())); } }
    // the helpers that take a canonical u64 on the right (used by Poseidon and the permutation argument): every representation on the left, every
    // canonical value of the lattice on the right; and the increment / decrement
    {
        let lat = lattice();
        for &a in &lat { for &b in &lat {
            let fa = F::from_noncanonical_u64(a);
            if b < P {
                cases += 2;
                let r = unsafe { fa.add_canonical_u64(b) };
                if m(r.0 as u128) != m(a as u128 + b as u128) { bad.push(format!("add_canonical_u64: F({a:#x}) + {b:#x} = {:#x}", r.0)); }
                let r = unsafe { fa.sub_canonical_u64(b) };
                if m(r.0 as u128 + b as u128) != m(a as u128) { bad.push(format!("sub_canonical_u64: F({a:#x}) - {b:#x} = {:#x}", r.0)); }
            }
        }
            cases += 2;
            let fa = F::from_noncanonical_u64(a);
            if m(fa.add_one().0 as u128) != m(a as u128 + 1) { bad.push(format!("add_one: F({a:#x}) + 1 = {:#x}", fa.add_one().0)); }
            if m(fa.sub_one().0 as u128 + 1) != m(a as u128) { bad.push(format!("sub_one: F({a:#x}) - 1 = {:#x}", fa.sub_one().0)); }
            // the derived unary operations, on every representation (a specialised routine must accept what the generic one accepts)
            for (what, k) in [("double", 0usize), ("triple", 1), ("square", 2), ("cube", 3)] {
                cases += 1;
                let want = match k { 0 => m(2 * m(a as u128)), 1 => m(3 * m(a as u128)), 2 => mulm(a as u128, a as u128), _ => mulm(mulm(a as u128, a as u128), a as u128) };
                match std::panic::catch_unwind(std::panic::AssertUnwindSafe(|| match k { 0 => fa.double(), 1 => fa.triple(), 2 => fa.square(), _ => fa.cube() })) {
                    Ok(r) => if m(r.0 as u128) != want { bad.push(format!("{what}: F({a:#x}).{what}() = {:#x}", r.0)); },
                    Err(_) => bad.push(format!("{what}: F({a:#x}).{what}() PANICKED")),
                }
            }
        }
    }
    finish("c14_base_field_ops", cases, bad);
}

fn ext_battery<const D: usize, E: OEF<D, BaseField = F> + Frobenius<D> + FieldExtension<D, BaseField = F>>(tag: &str, w: u64, bad: &mut Vec<String>, cases: &mut usize) {
    let lat = lattice();
    let pick = |s: usize| -> [F; D] { core::array::from_fn(|i| F::from_noncanonical_u64(lat[(s * 7 + i * 13 + s / 5) % lat.len()])) };
    let canon = |x: &E| -> Vec<u128> { x.to_basefield_array().iter().map(|c| m(c.0 as u128)).collect() };
    for s in 0..160usize {
        let (ac, bc) = (pick(s), pick(3 * s + 1));
        let (a, b) = (E::from_basefield_array(ac), E::from_basefield_array(bc));
        // schoolbook product modulo X^D - W
        let mut exp = vec![0u128; D];
        for i in 0..D { for j in 0..D { let pr = mulm(ac[i].0 as u128, bc[j].0 as u128); if i + j < D { exp[i + j] = m(exp[i + j] + pr); } else { exp[i + j - D] = m(exp[i + j - D] + mulm(w as u128, pr)); } } }
        *cases += 4;
        if canon(&(a * b)) != exp { bad.push(format!("{tag}: mul disagrees with schoolbook for a={:?} b={:?}", ac.map(|x| x.0), bc.map(|x| x.0))); }
        let sum: Vec<u128> = (0..D).map(|i| m(ac[i].0 as u128 + bc[i].0 as u128)).collect();
        if canon(&(a + b)) != sum { bad.push(format!("{tag}: add wrong for a={:?} b={:?}", ac.map(|x| x.0), bc.map(|x| x.0))); }
        if canon(&((a - b) + b)) != canon(&a) { bad.push(format!("{tag}: (a-b)+b != a for a={:?} b={:?}", ac.map(|x| x.0), bc.map(|x| x.0))); }
        *cases += 1;
        match std::panic::catch_unwind(std::panic::AssertUnwindSafe(|| (a.double(), a.triple(), a.square(), a.cube()))) {
            Ok((d2, t3, sq, cu)) => if canon(&d2) != canon(&(a + a)) || canon(&t3) != canon(&(a + a + a)) || canon(&sq) != canon(&(a * a)) || canon(&cu) != canon(&(a * a * a)) { bad.push(format!("{tag}: double / triple / square / cube disagree with + and * for a={:?}", ac.map(|x| x.0))); },
            Err(_) => bad.push(format!("{tag}: double / triple / square / cube PANICKED for a={:?}", ac.map(|x| x.0))),
        }
        if a != E::ZERO { let i = a.inverse(); if canon(&(a * i)) != canon(&E::ONE) { bad.push(format!("{tag}: a * a^-1 != 1 for a={:?}", ac.map(|x| x.0))); } }
        if s < 24 {
            // Frobenius: repeated_frobenius(k)(x) == x^(p^k), for counts below, at and above D
            let order = BigUint::from(P);
            for k in 0..(3 * D + 2) { *cases += 1;
                let want = a.exp_biguint(&order.pow(k as u32));
                if canon(&a.repeated_frobenius(k)) != canon(&want) { bad.push(format!("{tag}: repeated_frobenius({k}) != x^(p^{k}) for a={:?}", ac.map(|x| x.0))); } }
            *cases += 1;
            let xs: Vec<E> = (0..9).map(|t| E::from_basefield_array(pick(s + t))).filter(|x| *x != E::ZERO).collect();
            let inv = E::batch_multiplicative_inverse(&xs);
            if xs.iter().zip(&inv).any(|(x, i)| canon(&(*x * *i)) != canon(&E::ONE)) { bad.push(format!("{tag}: batch inverse wrong at seed {s}")); }
        }
    }
    // inverse_2exp(e) is the inverse of 2^e for every e, also beyond the two-adicity of the characteristic and of the extension
    for e in [0usize, 1, 2, 31, 32, 33, 34, 35, 36, 63, 64, 65, 96, 97, 128, 200] {
        *cases += 1;
        match std::panic::catch_unwind(std::panic::AssertUnwindSafe(|| E::inverse_2exp(e))) {
            Ok(r) => if canon(&(r * E::TWO.exp_u64(e as u64))) != canon(&E::ONE) { bad.push(format!("{tag}: inverse_2exp({e}) is not the inverse of 2^{e}")); },
            Err(_) => bad.push(format!("{tag}: inverse_2exp({e}) PANICKED")),
        }
    }
    *cases += 2;
    if canon(&E::from_basefield_array(core::array::from_fn(|i| if i == 0 { F::from_canonical_u64(w) } else { F::ZERO }))) != canon(&E::from_basefield(E::W)) { bad.push(format!("{tag}: W is not {w}")); }
}

// C14: extension fields agree with schoolbook arithmetic modulo X^D - W, Frobenius and batch inversion are consistent
#[test]
fn c14_extension_fields() {
    let mut bad = Vec::new();
    let mut cases = 0usize;
    ext_battery::<2, QuadraticExtension<F>>("quadratic", 7, &mut bad, &mut cases);
    ext_battery::<4, QuarticExtension<F>>("quartic", 7, &mut bad, &mut cases);
    ext_battery::<5, QuinticExtension<F>>("quintic", 3, &mut bad, &mut cases);
    finish("c14_extension_fields", cases, bad);
}

// C14: "generators ... are consistent": MULTIPLICATIVE_GROUP_GENERATOR generates the whole multiplicative group (its order is not a proper divisor of
// |E| - 1: g^((|E|-1)/r) != 1 for every prime r of a list of known prime factors), and POWER_OF_TWO_GENERATOR = g^((|E|-1) / 2^TWO_ADICITY) has order 2^TWO_ADICITY
fn generator_battery<E: Field>(tag: &str, bad: &mut Vec<String>, cases: &mut usize) {
    let n: BigUint = E::order() - BigUint::from(1u32);
    let g = E::MULTIPLICATIVE_GROUP_GENERATOR;
    *cases += 1;
    if g.exp_biguint(&n) != E::ONE { bad.push(format!("{tag}: generator^(order - 1) != 1")); }
    for r in [2u64, 3, 5, 7, 11, 13, 17, 19, 31, 41, 71, 179, 211, 257, 3541, 13201, 39971, 65537, 1018651, 1061341, 7361031152998637] {
        let rb = BigUint::from(r);
        if (&n % &rb) != BigUint::from(0u32) { continue; }
        *cases += 1;
        if g.exp_biguint(&(&n / &rb)) == E::ONE { bad.push(format!("{tag}: MULTIPLICATIVE_GROUP_GENERATOR is not a generator of the multiplicative group: generator^((|E|-1)/{r}) == 1")); }
    }
    *cases += 2;
    let h = E::POWER_OF_TWO_GENERATOR;
    if g.exp_biguint(&(&n >> E::TWO_ADICITY)) != h { bad.push(format!("{tag}: POWER_OF_TWO_GENERATOR != generator^((|E|-1) >> TWO_ADICITY)")); }
    if h.exp_power_of_2(E::TWO_ADICITY) != E::ONE || h.exp_power_of_2(E::TWO_ADICITY - 1) == E::ONE { bad.push(format!("{tag}: POWER_OF_TWO_GENERATOR does not have order 2^TWO_ADICITY")); }
}

#[test]
fn c14_generators() {
    let mut bad = Vec::new();
    let mut cases = 0usize;
    generator_battery::<F>("Goldilocks", &mut bad, &mut cases);
    generator_battery::<QuadraticExtension<F>>("quadratic extension", &mut bad, &mut cases);
    generator_battery::<QuarticExtension<F>>("quartic extension", &mut bad, &mut cases);
    generator_battery::<QuinticExtension<F>>("quintic extension", &mut bad, &mut cases);
    finish("c14_generators", cases, bad);
}

fn naive_dft(c: &[F]) -> Vec<F> {
    let n = c.len();
    let g = F::primitive_root_of_unity(n.trailing_zeros() as usize);
    (0..n).map(|i| { let x = g.exp_u64(i as u64); let mut acc = F::ZERO; for k in (0..n).rev() { acc = acc * x + c[k]; } acc }).collect()
}

// C15: FFT == direct evaluation; inverse and coset variants invert it; options (zero tail, root table) do not change values
#[test]
fn c15_transforms() {
    let mut bad = Vec::new();
    let mut cases = 0usize;
    let mut s = 0xA5A5_5A5A_1234_5678u64 ^ seed();
    let mut rnd = || { s ^= s << 13; s ^= s >> 7; s ^= s << 17; F::from_noncanonical_u64(s) };
    for lg in 0..9usize {
        let n = 1usize << lg;
        let coeffs: Vec<F> = (0..n).map(|_| rnd()).collect();
        let want = naive_dft(&coeffs);
        let got = fft(PolynomialCoeffs::new(coeffs.clone()));
        cases += 1;
        if got.values != want { bad.push(format!("fft != naive DFT at size {n}")); }
        cases += 1;
        if ifft(got.clone()).coeffs != coeffs { bad.push(format!("ifft(fft(p)) != p at size {n}")); }
        let table = fft_root_table::<F>(n);
        cases += 1;
        if fft_with_options(PolynomialCoeffs::new(coeffs.clone()), None, Some(&table)).values != want { bad.push(format!("fft with precomputed root table differs at size {n}")); }
        for r in 1..=lg.min(4) {
            // only the first n / 2^r coefficients are non-zero
            let mut c2 = coeffs.clone(); for k in (n >> r)..n { c2[k] = F::ZERO; }
            let want2 = naive_dft(&c2);
            cases += 2;
            if fft_with_options(PolynomialCoeffs::new(c2.clone()), Some(r), None).values != want2 { bad.push(format!("fft with zero_factor {r} differs at size {n}")); }
            if fft_with_options(PolynomialCoeffs::new(c2.clone()), Some(r), Some(&table)).values != want2 { bad.push(format!("fft with zero_factor {r} and root table differs at size {n}")); }
        }
        cases += 1;
        if ifft_with_options(PolynomialValues::new(want.clone()), None, Some(&table)).coeffs != coeffs { bad.push(format!("ifft with root table differs at size {n}")); }
        // a root table made for a LARGER transform: either refused (panic) or the same values
        if n >= 2 { for bigger in [2 * n, 8 * n] {
            let big = fft_root_table::<F>(bigger);
            cases += 1;
            if let Ok(v) = std::panic::catch_unwind(std::panic::AssertUnwindSafe(|| fft_with_options(PolynomialCoeffs::new(coeffs.clone()), None, Some(&big)).values)) { if v != want { bad.push(format!("fft of size {n} with a root table for size {bigger} returns wrong values")); } }
        } }
        for r in 1..=lg.min(4) {
            // inverse transform of a VALUE vector whose last (1 - 2^-r) fraction is zero: the zero-tail option must not change the result
            let mut v2 = want.clone(); for k in (n >> r)..n { v2[k] = F::ZERO; }
            for tbl in [None, Some(&table)] {
                cases += 1;
                let c = ifft_with_options(PolynomialValues::new(v2.clone()), Some(r), tbl).coeffs;
                if naive_dft(&c) != v2 { bad.push(format!("ifft with zero_factor {r}{} is not the inverse transform at size {n}", if tbl.is_some() { " and root table" } else { "" })); }
            }
        }
        // coset variants and LDE: the canonical shift, shifts inside the subgroup, and an arbitrary one
        let p = PolynomialCoeffs::new(coeffs.clone());
        let g = F::primitive_root_of_unity(lg);
        for shift in [F::coset_shift(), g, g.exp_u64(3), g.exp_u64((n as u64).saturating_sub(1)), F::ONE, F::from_canonical_u64(12345)] {
            let cv = p.coset_fft(shift);
            cases += 2;
            if (0..n).any(|i| cv.values[i] != p.eval(shift * g.exp_u64(i as u64))) { bad.push(format!("coset_fft != evaluation on the coset at size {n} for shift {}", shift.to_canonical_u64())); }
            let truth = PolynomialValues::new((0..n).map(|i| p.eval(shift * g.exp_u64(i as u64))).collect());
            if truth.coset_ifft(shift).coeffs != coeffs { bad.push(format!("coset_ifft of the true coset evaluations != p at size {n} for shift {}", shift.to_canonical_u64())); }
        }
        cases += 1;
        if n >= 2 { let l = p.lde(1); if l.coeffs[..n] != coeffs[..] || l.coeffs[n..].iter().any(|x| x.is_nonzero()) { bad.push(format!("lde(1) is not zero-padding at size {n}")); } }
    }
    finish("c15_transforms", cases, bad);
}

fn school_mul(a: &[F], b: &[F]) -> Vec<F> {
    if a.is_empty() || b.is_empty() { return vec![]; }
    let mut r = vec![F::ZERO; a.len() + b.len() - 1];
    for i in 0..a.len() { for j in 0..b.len() { r[i + j] += a[i] * b[j]; } }
    r
}
fn trim(mut v: Vec<F>) -> Vec<F> { while v.last().map_or(false, |x| x.is_zero()) { v.pop(); } v }

// C15: multiplication, division with remainder, division by a linear factor, interpolation
#[test]
fn c15_polynomial_algebra() {
    use crate::interpolation::{barycentric_weights, interpolant, interpolate};
    let mut bad = Vec::new();
    let mut cases = 0usize;
    let mut s = 0x0F1E_2D3C_4B5A_6978u64 ^ seed();
    let mut rnd = || { s ^= s << 13; s ^= s >> 7; s ^= s << 17; F::from_noncanonical_u64(s) };
    for da in 0..12usize { for db in 0..12usize {
        let a: Vec<F> = (0..da).map(|_| rnd()).collect();
        let b: Vec<F> = (0..db).map(|_| rnd()).collect();
        let (pa, pb) = (PolynomialCoeffs::new(a.clone()), PolynomialCoeffs::new(b.clone()));
        cases += 1;
        if trim((&pa * &pb).coeffs) != trim(school_mul(&a, &b)) { bad.push(format!("mul differs from schoolbook for degrees {da},{db}")); }
        if trim(b.clone()).is_empty() { continue; }
        for which in 0..2 {
            cases += 1;
            let (q, r) = if which == 0 { pa.div_rem(&pb) } else { pa.div_rem_long_division(&pb) };
            let mut back = school_mul(&q.coeffs, &b);
            let l = back.len().max(r.coeffs.len()); back.resize(l, F::ZERO);
            for (i, c) in r.coeffs.iter().enumerate() { back[i] += *c; }
            if trim(back) != trim(a.clone()) { bad.push(format!("div_rem variant {which}: q*b + r != a for degrees {da},{db}")); }
            if trim(r.coeffs.clone()).len() >= trim(b.clone()).len() { bad.push(format!("div_rem variant {which}: deg r >= deg b for degrees {da},{db}")); }
        }
    } }
    // the same polynomials held with trailing zero coefficients (what ifft / padded() / lde() produce): products, quotients and remainders do not depend on the padding
    for da in 0..9usize { for db in 1..7usize { for (za, zb) in [(1usize, 0usize), (0, 1), (3, 2), (4, 0), (0, 4), (7, 1)] {
        let a: Vec<F> = (0..da).map(|_| rnd()).collect();
        let mut b: Vec<F> = (0..db).map(|_| rnd()).collect();
        if b[db - 1].is_zero() { b[db - 1] = F::ONE; }
        let mut ap = a.clone(); ap.extend(core::iter::repeat(F::ZERO).take(za));
        let mut bp = b.clone(); bp.extend(core::iter::repeat(F::ZERO).take(zb));
        let (pa, pb) = (PolynomialCoeffs::new(ap.clone()), PolynomialCoeffs::new(bp.clone()));
        let what = format!("degrees {da},{db} with {za},{zb} trailing zero coefficients");
        cases += 1;
        match std::panic::catch_unwind(std::panic::AssertUnwindSafe(|| (&pa * &pb).coeffs)) {
            Err(_) => bad.push(format!("mul PANICKED for {what}")),
            Ok(m) => if trim(m) != trim(school_mul(&a, &b)) { bad.push(format!("mul differs from schoolbook for {what}")); },
        }
        for which in 0..2 {
            cases += 1;
            match std::panic::catch_unwind(std::panic::AssertUnwindSafe(|| if which == 0 { pa.div_rem(&pb) } else { pa.div_rem_long_division(&pb) })) {
                Err(_) => bad.push(format!("div_rem variant {which} PANICKED for {what}")),
                Ok((q, r)) => {
                    let mut back = school_mul(&trim(q.coeffs.clone()), &b);
                    let l = back.len().max(r.coeffs.len()).max(a.len()); back.resize(l, F::ZERO);
                    for (i, c) in r.coeffs.iter().enumerate() { back[i] += *c; }
                    if trim(back) != trim(a.clone()) { bad.push(format!("div_rem variant {which}: q*b + r != a for {what}")); }
                    if trim(r.coeffs.clone()).len() >= db { bad.push(format!("div_rem variant {which}: deg r >= deg b for {what}")); }
                }
            }
        }
        // evaluation, degree and leading coefficient ignore the padding as well
        cases += 1;
        let z = rnd();
        if pa.eval(z) != PolynomialCoeffs::new(a.clone()).eval(z) || pa.degree_plus_one() != trim(a.clone()).len() || pb.lead() != b[db - 1] { bad.push(format!("eval / degree_plus_one / lead depend on the padding for {what}")); }
    } } }
    // structured operands: quotients and inverses with zero coefficients (incl. low-order zeros), equal degrees, constants
    let fc = |v: &[i64]| -> Vec<F> { v.iter().map(|&x| F::from_noncanonical_i64(x)).collect() };
    for (a, b) in [(fc(&[0, 1, 1, 1]), fc(&[1, 1, 1])), (fc(&[0, 0, 0, 1]), fc(&[0, 1])), (fc(&[0, 0, 1, 0, 1]), fc(&[1, 0, 1])), (fc(&[5, 0, 0, 0, 0, 0, 0, 0, 1]), fc(&[1, 0, 1])),
                   (fc(&[3, 4, 5]), fc(&[7, 8, 9])), (fc(&[6]), fc(&[3])), (fc(&[0, 0, 2, 0, 0, 0, 2]), fc(&[0, 0, 1])), (fc(&[1, 0, 0, 0, 0, 0, 0, 0, 0, 0, 0, 0, 0, 0, 0, 0, 1]), fc(&[1, 0, 0, 0, 1]))] {
        let (pa, pb) = (PolynomialCoeffs::new(a.clone()), PolynomialCoeffs::new(b.clone()));
        for which in 0..2 {
            cases += 1;
            let res = std::panic::catch_unwind(std::panic::AssertUnwindSafe(|| if which == 0 { pa.div_rem(&pb) } else { pa.div_rem_long_division(&pb) }));
            let what = format!("div_rem variant {which} of {:?} by {:?}", a.iter().map(|x| x.to_canonical_u64()).collect::<Vec<_>>(), b.iter().map(|x| x.to_canonical_u64()).collect::<Vec<_>>());
            match res {
                Err(_) => bad.push(format!("{what}: PANICKED")),
                Ok((q, r)) => {
                    let mut back = school_mul(&q.coeffs, &b);
                    let l = back.len().max(r.coeffs.len()).max(a.len()); back.resize(l, F::ZERO);
                    for (i, c) in r.coeffs.iter().enumerate() { back[i] += *c; }
                    if trim(back) != trim(a.clone()) { bad.push(format!("{what}: q*b + r != a")); }
                    if trim(r.coeffs.clone()).len() >= trim(b.clone()).len() { bad.push(format!("{what}: deg r >= deg b (q = {:?}, r = {:?})", q.coeffs.iter().map(|x| x.to_canonical_u64()).collect::<Vec<_>>(), r.coeffs.iter().map(|x| x.to_canonical_u64()).collect::<Vec<_>>())); }
                }
            }
        }
    }
    for (h, n) in [(fc(&[1, 0, 1]), 8usize), (fc(&[1, 1]), 5), (fc(&[2, 0, 0, 0, 1]), 16), (fc(&[1, 0, 0, 1]), 7), (fc(&[3]), 4), (fc(&[1, 2, 3, 4, 5]), 3)] {
        cases += 1;
        let ph = PolynomialCoeffs::new(h.clone());
        let what = format!("inv_mod_xn({n}) of {:?}", h.iter().map(|x| x.to_canonical_u64()).collect::<Vec<_>>());
        match std::panic::catch_unwind(std::panic::AssertUnwindSafe(|| ph.inv_mod_xn(n))) {
            Err(_) => bad.push(format!("{what}: PANICKED")),
            Ok(inv) => { let mut pr = school_mul(&inv.coeffs, &h); pr.resize(n.max(pr.len()), F::ZERO); pr.truncate(n);
                if pr[0] != F::ONE || pr[1..].iter().any(|x| x.is_nonzero()) { bad.push(format!("{what}: h * inv != 1 mod x^n")); } }
        }
    }
    for d in 1..10usize {
        let a: Vec<F> = (0..d).map(|_| rnd()).collect();
        let z = rnd();
        let pa = PolynomialCoeffs::new(a.clone());
        // (a(X) - a(z)) / (X - z)
        let mut shifted = a.clone(); shifted[0] -= pa.eval(z);
        let q = PolynomialCoeffs::new(shifted.clone()).divide_by_linear(z);
        cases += 1;
        if trim(school_mul(&q.coeffs, &[-z, F::ONE])) != trim(shifted) { bad.push(format!("divide_by_linear wrong for degree {d}")); }
        let pts: Vec<(F, F)> = (0..d).map(|i| { let x = F::from_canonical_u64(i as u64 + 2); (x, pa.eval(x)) }).collect();
        cases += 2;
        if trim(interpolant(&pts).coeffs) != trim(a.clone()) { bad.push(format!("interpolant does not recover a degree-{d} polynomial")); }
        let w = barycentric_weights(&pts);
        let x = rnd();
        if interpolate(&pts, x, &w) != pa.eval(x) { bad.push(format!("barycentric interpolate wrong for degree {d}")); }
        // values with exact zeros in every position pattern (a coset on which the function vanishes at some points)
        for mask in 0..(1u32 << d.min(6)) {
            let ys: Vec<F> = (0..d).map(|i| if i < 6 && (mask >> i) & 1 == 1 { F::ZERO } else { F::from_canonical_u64(7 * i as u64 + 3) }).collect();
            let pz: Vec<(F, F)> = (0..d).map(|i| (F::from_canonical_u64(i as u64 + 2), ys[i])).collect();
            let wz = barycentric_weights(&pz);
            let want = interpolant(&pz).eval(x);
            // independent oracle: Lagrange formula
            let lag = (0..d).fold(F::ZERO, |acc, i| { let mut t = ys[i]; for j in 0..d { if j != i { t *= (x - pz[j].0) * (pz[i].0 - pz[j].0).inverse(); } } acc + t });
            cases += 1;
            if interpolate(&pz, x, &wz) != lag || want != lag { bad.push(format!("interpolate / interpolant wrong for {d} points with zero values at mask {mask:#b}")); break; }
        }
        // the points of a two-adic subgroup, listed in natural, reversed and rotated order
        if d.is_power_of_two() {
            let lgd = d.trailing_zeros() as usize;
            let g = F::primitive_root_of_unity(lgd);
            for order in 0..3 {
                let idx: Vec<usize> = match order { 0 => (0..d).collect(), 1 => (0..d).rev().collect(), _ => (0..d).map(|i| (i + 1) % d).collect() };
                let ps: Vec<(F, F)> = idx.iter().map(|&i| { let xx = g.exp_u64(i as u64); (xx, pa.eval(xx)) }).collect();
                cases += 1;
                if trim(interpolant(&ps).coeffs) != trim(a.clone()) { bad.push(format!("interpolant over the subgroup of order {d} listed in order {order} does not recover the polynomial")); }
            }
        }
    }
    finish("c15_polynomial_algebra", cases, bad);
}

// C14: exponentiation (u64 / BigUint / power-of-two / inverse) against square-and-multiply over the naive product, incl. the zero base and exponents around
// multiples of the group order; the `Powers` iterator (also after it has been advanced or started at a non-trivial element) and its Frobenius image
fn exp_battery<const D: usize, E: Field + Frobenius<D> + FieldExtension<D, BaseField = F>>(tag: &str, bad: &mut Vec<String>, cases: &mut usize) {
    let naive = |x: E, e: &BigUint| -> E { let mut acc = E::ONE; for i in (0..e.bits()).rev() { acc = acc * acc; if e.bit(i) { acc = acc * x; } } acc };
    let q = E::order();
    let qm1 = &q - 1u32;
    let mut s = 0xD1B5_4A32_D192_ED03u64 ^ seed();
    let mut rnd = || { s ^= s << 13; s ^= s >> 7; s ^= s << 17; F::from_noncanonical_u64(s) };
    let mut elems: Vec<E> = vec![E::ZERO, E::ONE, E::TWO, E::NEG_ONE, E::MULTIPLICATIVE_GROUP_GENERATOR];
    for _ in 0..3 { let arr: [F; D] = core::array::from_fn(|_| rnd()); elems.push(E::from_basefield_array(arr)); }
    let exps: Vec<BigUint> = vec![BigUint::from(0u32), BigUint::from(1u32), BigUint::from(2u32), BigUint::from(u64::MAX), BigUint::from(u64::MAX) + 1u32,
        &qm1 - 1u32, qm1.clone(), q.clone(), &qm1 * 2u32, &qm1 * 3u32 + 5u32, &q * &q, (BigUint::from(1u32) << 130) + 12345u32];
    for &x in &elems {
        for e in &exps {
            *cases += 1;
            let got = x.exp_biguint(e);
            if got != naive(x, e) { bad.push(format!("{tag}: exp_biguint({:?}, {e}) differs from square-and-multiply", x.to_basefield_array().map(|c| c.to_canonical_u64()))); }
        }
        for e in [0u64, 1, 2, 3, 63, 64, 65, u32::MAX as u64, 1 << 32, u64::MAX - 1, u64::MAX] {
            *cases += 1;
            if x.exp_u64(e) != naive(x, &BigUint::from(e)) { bad.push(format!("{tag}: exp_u64({:?}, {e}) differs from square-and-multiply", x.to_basefield_array().map(|c| c.to_canonical_u64()))); }
        }
        for k in [0usize, 1, 5, 32, 64] { *cases += 1; if x.exp_power_of_2(k) != naive(x, &(BigUint::from(1u32) << k)) { bad.push(format!("{tag}: exp_power_of_2(_, {k}) wrong")); } }
        *cases += 1;
        match x.try_inverse() { None => { if x != E::ZERO { bad.push(format!("{tag}: non-zero element has no inverse")); } } Some(i) => { if x == E::ZERO { bad.push(format!("{tag}: zero has an inverse")); } else if i * x != E::ONE { bad.push(format!("{tag}: x * inverse(x) != 1")); } } }
    }
    // Powers: fresh, shifted, advanced; Frobenius image of the remaining sequence
    for &b in &elems[2..] { for &start in &[E::ONE, elems[4], elems[5]] { for skip in [0usize, 1, 3] { for k in 0..=D {
        let mut it = b.shifted_powers(start);
        for _ in 0..skip { it.next(); }
        let expect: Vec<E> = (0..5).map(|i| (start * naive(b, &BigUint::from((skip + i) as u64))).repeated_frobenius(k)).collect();
        let got: Vec<E> = it.repeated_frobenius(k).take(5).collect();
        *cases += 1;
        if got != expect { bad.push(format!("{tag}: powers of a base started at {}, advanced by {skip}, under Frobenius^{k}: sequence differs from the element-wise image", if start == E::ONE { "1" } else { "a general element" })); }
    } } } }
}

#[test]
fn c14_exponentiation_and_powers() {
    let mut bad = Vec::new();
    let mut cases = 0usize;
    exp_battery::<1, F>("base field", &mut bad, &mut cases);
    exp_battery::<2, QuadraticExtension<F>>("quadratic", &mut bad, &mut cases);
    exp_battery::<4, QuarticExtension<F>>("quartic", &mut bad, &mut cases);
    exp_battery::<5, QuinticExtension<F>>("quintic", &mut bad, &mut cases);
    // zero in non-canonical form has no inverse either
    for raw in [0u64, P] { cases += 1; if F::from_noncanonical_u64(raw).try_inverse().is_some() { bad.push(format!("base field: the representation {raw:#x} of zero has an inverse")); } }
    { let z = F::ONE + F::NEG_ONE; cases += 1; if z.try_inverse().is_some() { bad.push("base field: 1 + (-1) has an inverse".into()); } }
    finish("c14_exponentiation_and_powers", cases, bad);
}

// C15: vanishing polynomial on a coset, first Lagrange polynomial, disjoint coset shifts, value-form helpers
#[test]
fn c15_cosets_and_zero_poly() {
    use crate::cosets::get_unique_coset_shifts;
    use crate::zero_poly_coset::ZeroPolyOnCoset;
    let mut bad = Vec::new();
    let mut cases = 0usize;
    for n_log in 0..7usize { for rate_bits in 0..4usize {
        let z = ZeroPolyOnCoset::<F>::new(n_log, rate_bits);
        let lde_log = n_log + rate_bits;
        let w = F::primitive_root_of_unity(lde_log);
        let n = 1u64 << n_log;
        for i in 0..(1usize << lde_log) {
            let x = F::coset_shift() * w.exp_u64(i as u64);
            let zh = x.exp_u64(n) - F::ONE;
            cases += 1;
            if z.eval(i) != zh { bad.push(format!("ZeroPolyOnCoset(2^{n_log}, rate 2^{rate_bits}).eval({i}) != x^n - 1")); break; }
            if zh != F::ZERO && z.eval_inverse(i) * zh != F::ONE { bad.push(format!("ZeroPolyOnCoset(2^{n_log}, rate 2^{rate_bits}).eval_inverse({i}) is not the inverse")); break; }
            if x != F::ONE { let l0 = zh * (F::from_canonical_u64(n) * (x - F::ONE)).inverse(); if z.eval_l_0(i, x) != l0 { bad.push(format!("ZeroPolyOnCoset(2^{n_log}, rate 2^{rate_bits}).eval_l_0({i}) wrong")); break; } }
        }
    } }
    // L_0 really is the first Lagrange polynomial: it is the interpolant of (1, 0, ..., 0) evaluated off the domain
    for n_log in 1..6usize {
        let n = 1usize << n_log;
        let l0 = PolynomialValues::<F>::selector(n, 0).ifft();
        let z = ZeroPolyOnCoset::<F>::new(n_log, 2);
        let w = F::primitive_root_of_unity(n_log + 2);
        for i in [1usize, 2, 5, (1 << (n_log + 2)) - 1] { let x = F::coset_shift() * w.exp_u64(i as u64); cases += 1; if z.eval_l_0(i, x) != l0.eval(x) { bad.push(format!("eval_l_0 differs from the interpolated first Lagrange polynomial at size {n}")); break; } }
    }
    // coset shifts: k_i * H pairwise disjoint  <=>  (k_i / k_j)^|H| != 1
    for sg_log in 0..8usize { for num in [1usize, 2, 3, 8, 80, 135] {
        let size = 1usize << sg_log;
        let ks = get_unique_coset_shifts::<F>(size, num);
        cases += 1;
        if ks.len() != num { bad.push(format!("get_unique_coset_shifts({size}, {num}) returns {} shifts", ks.len())); continue; }
        'outer: for i in 0..num { if ks[i] == F::ZERO { bad.push(format!("get_unique_coset_shifts({size}, {num}): shift {i} is zero")); break; }
            for j in 0..i { if (ks[i] * ks[j].inverse()).exp_u64(size as u64) == F::ONE { bad.push(format!("get_unique_coset_shifts({size}, {num}): cosets {j} and {i} coincide")); break 'outer; } } }
    } }
    // low-degree extension of the values of LOW-degree polynomials (every degree below the domain size, not only full-degree / random values)
    for lg in 0..6usize {
        let n = 1usize << lg;
        for deg_plus_one in 0..=n {
            let coeffs: Vec<F> = (0..n).map(|k| if k < deg_plus_one { F::from_canonical_u64(3 * k as u64 + 1 + seed()) } else { F::ZERO }).collect();
            let p = PolynomialCoeffs::new(coeffs.clone());
            let g0 = F::primitive_root_of_unity(lg);
            let pv = PolynomialValues::new((0..n).map(|i| p.eval(g0.exp_u64(i as u64))).collect());
            for rb in 0..4usize {
                cases += 1;
                let g = F::primitive_root_of_unity(lg + rb);
                match std::panic::catch_unwind(std::panic::AssertUnwindSafe(|| pv.clone().lde(rb))) {
                    Err(_) => bad.push(format!("PolynomialValues::lde({rb}) PANICKED for a degree-{} polynomial on {n} points", deg_plus_one as isize - 1)),
                    Ok(l) => if l.values.len() != n << rb || (0..n << rb).any(|i| l.values[i] != p.eval(g.exp_u64(i as u64))) { bad.push(format!("PolynomialValues::lde({rb}) wrong for a degree-{} polynomial on {n} points", deg_plus_one as isize - 1)); },
                }
            }
        }
    }
    // value-form helpers
    let mut s = 0x1234_5678_9ABC_DEF0u64 ^ seed();
    let mut rnd = || { s ^= s << 13; s ^= s >> 7; s ^= s << 17; F::from_noncanonical_u64(s) };
    for lg in 0..7usize {
        let n = 1usize << lg;
        let vals: Vec<F> = (0..n).map(|_| rnd()).collect();
        let pv = PolynomialValues::new(vals.clone());
        let coeffs = pv.clone().ifft();
        for rb in 0..3usize {
            cases += 2;
            let l = pv.clone().lde(rb);
            let g = F::primitive_root_of_unity(lg + rb);
            if (0..n << rb).any(|i| l.values[i] != coeffs.eval(g.exp_u64(i as u64))) { bad.push(format!("PolynomialValues::lde({rb}) at size {n} is not the evaluation of the interpolant on the larger subgroup")); }
            let lc = pv.clone().lde_onto_coset(rb);
            if (0..n << rb).any(|i| lc.values[i] != coeffs.eval(F::coset_shift() * g.exp_u64(i as u64))) { bad.push(format!("PolynomialValues::lde_onto_coset({rb}) at size {n} is not the evaluation on the coset")); }
        }
        let other: Vec<F> = (0..n).map(|_| rnd()).collect();
        let wgt = rnd();
        let mut acc = pv.clone(); acc.add_assign_scaled(&PolynomialValues::new(other.clone()), wgt); cases += 1;
        if (0..n).any(|i| acc.values[i] != vals[i] + other[i] * wgt) { bad.push(format!("add_assign_scaled wrong at size {n}")); }
        cases += 1;
        let x = rnd(); let pows: Vec<F> = x.powers().take(n).collect();
        if coeffs.eval_with_powers(&pows[1..].to_vec()) != coeffs.eval(x) && n > 0 { bad.push(format!("eval_with_powers differs from eval at size {n}")); }
    }
    finish("c15_cosets_and_zero_poly", cases, bad);
}

// Bounded stand-in harness for plonky2_util (C15: bit-reversal / transpose helpers, log2 helpers).  BOUNDED: never counted as proof.
#![allow(unused_imports, dead_code, clippy::all)]
use alloc::format;
use alloc::string::String;
use alloc::vec::Vec;

use crate::{bits_u64, log2_ceil, log2_strict, log_floor, reverse_index_bits, reverse_index_bits_in_place};

extern crate std;
use std::println;

fn finish(name: &str, cases: usize, bad: Vec<String>) {
    println!("vx_harness {}: {} cases, {} failures", name, cases, bad.len());
    for b in &bad {
        println!("VXFAIL {}: {}", name, b);
    }
    assert!(bad.is_empty(), "vx_harness {}: {} of {} cases violate the property", name, bad.len(), cases);
}

fn rev(i: usize, bits: usize) -> usize {
    let mut r = 0;
    for k in 0..bits { if (i >> k) & 1 == 1 { r |= 1 << (bits - 1 - k); } }
    r
}

#[derive(Clone, Copy, PartialEq, Debug)]
struct Big([u64; 64]);       // 512 bytes: reaches the chunked/transposing branch already at 2^8 elements
#[derive(Clone, PartialEq, Debug)]
struct Huge(Vec<u64>, [u64; 2048]);   // >= BIG_T_SIZE: always the small branch

#[test]
fn c15_bit_reversal_and_transpose() {
    let mut bad = Vec::new();
    let mut cases = 0usize;
    for lb in 0..=17usize {
        let n = 1usize << lb;
        let v: Vec<u32> = (0..n as u32).collect();
        cases += 2;
        let out = reverse_index_bits(&v);
        if (0..n).any(|i| out[i] != v[rev(i, lb)]) { bad.push(format!("reverse_index_bits wrong at 2^{lb}")); }
        let mut w = v.clone();
        reverse_index_bits_in_place(&mut w);
        if (0..n).any(|i| w[i] != v[rev(i, lb)]) { bad.push(format!("reverse_index_bits_in_place (u32) wrong at 2^{lb}")); }
        if lb <= 12 {
            // big elements: size_of::<T>() << lb > SMALL_ARR_SIZE switches to the chunked in-place permutation (odd and even lb)
            let mut b: Vec<Big> = (0..n).map(|i| Big([i as u64; 64])).collect();
            reverse_index_bits_in_place(&mut b);
            cases += 1;
            if (0..n).any(|i| b[i].0[0] != rev(i, lb) as u64 || b[i].0[63] != rev(i, lb) as u64) { bad.push(format!("reverse_index_bits_in_place (512-byte elements) wrong at 2^{lb}")); }
        }
        if lb <= 5 {
            let mut h: Vec<Huge> = (0..n).map(|i| Huge(alloc::vec![i as u64], [i as u64; 2048])).collect();
            reverse_index_bits_in_place(&mut h);
            cases += 1;
            if (0..n).any(|i| h[i].0[0] != rev(i, lb) as u64 || h[i].1[2047] != rev(i, lb) as u64) { bad.push(format!("reverse_index_bits_in_place (huge elements) wrong at 2^{lb}")); }
        }
    }
    finish("c15_bit_reversal_and_transpose", cases, bad);
}

#[test]
fn c15_log_helpers() {
    let mut bad = Vec::new();
    let mut cases = 0usize;
    for k in 0..64usize {
        cases += 3;
        if log2_strict(1usize << k) != k { bad.push(format!("log2_strict(2^{k})")); }
        for n in [(1usize << k), (1usize << k) + 1, (1usize << k).wrapping_sub(1)] {
            if n == 0 { continue; }
            let c = log2_ceil(n);
            if !((c == 0 && n == 1) || (c >= 1 && (1u128 << (c - 1)) < n as u128 && (n as u128) <= (1u128 << c))) { bad.push(format!("log2_ceil({n}) = {c}")); }
            let b = bits_u64(n as u64);
            if !((1u128 << b) > n as u128 && (b == 0 || (1u128 << (b - 1)) <= n as u128)) { bad.push(format!("bits_u64({n}) = {b}")); }
        }
    }
    if bits_u64(0) != 0 { bad.push("bits_u64(0)".into()); }
    for base in [2u64, 3, 7, 10, 1 << 32, u64::MAX] { for n in [1u64, 2, 3, 6, 7, 8, 9, 48, 49, 50, 1 << 32, u64::MAX - 1, u64::MAX] {
        cases += 1;
        let r = log_floor(n, base);
        let mut p: u128 = 1; for _ in 0..r { p *= base as u128; }
        if !(p <= n as u128 && p * (base as u128) > n as u128) { bad.push(format!("log_floor({n}, {base}) = {r}")); }
    } }
    finish("c15_log_helpers", cases, bad);
}
